package sim

import (
	"fmt"
	"runtime/debug"
	"sort"
	"strings"
	"sync"
	"time"
	"unsafe"

	"github.com/mlange-42/ark/ecs"
)

// Engine A: the single-thread world simulator. One Sim = one world + its
// reference model, driven op by op.

// FilterInst is a filter pair: A may be registered, B never is.
type FilterInst struct {
	Spec       FilterSpec
	A, B       Filterer
	Rels       []relPair
	Registered bool
	RegAtEpoch int
}

// Typed reports whether the filter was specified through the typed API (in the C14
// twin it is then realised through the ID-based API, which must not change which ops apply).
func (fi *FilterInst) Typed() bool { return fi.Spec.Ad >= 0 }

// OpenQuery is a query held open across ops.
type OpenQuery struct {
	F, W     int
	Q        Querier
	Rels     []relPair
	Expect   map[int]bool
	Visited  map[int]int
	Order    []int
	Done     bool
	OnEntity bool // cursor currently on an entity
	Held     bool // opened by an OpenQuery op (as opposed to a sweep)
	Steps    int
}

// ObsInst is an observer instance.
type ObsInst struct {
	Spec       ObsSpec
	O          Observerer
	ForAll     []int
	Registered bool
	Script     []int
	Calls      int
	Epoch      int // epoch in which it was last registered
	touched    bool
	Invalid    bool // its registration is rejected by ark (misuse); never registered by ops or callbacks
}

type firing struct {
	Obs int
	H   ecs.Entity
	Ev  int
}

type evRow struct {
	Ev       int
	Key      int // label (>0) of an existing entity, or -(index+1) of a pending new entity; 0 = zero entity
	Affected []int
	Basis    []int
	Before   bool
}

// txn is the in-flight state of one operation.
type txn struct {
	kind         string
	rows         []evRow
	post         map[int]*Ent // label -> post state (Alive=false: removed)
	pend         []*Ent       // entities being created
	batch        []int        // labels of a batch op
	fired        []firing
	expLock      bool // world expected locked during "after" callbacks (batch op)
	callerLocked bool
	inBatchCb    bool
	rel          bool // relation operation: an unexpected failure is attributed to C04
	depth        int  // nesting depth of events raised from inside a callback (Set / Emit)
	forceBefore  bool // nested events raised from a "before" callback see the pre-state
}

// Counters collects reach and fault statistics of a run.
type Counters struct {
	Ops      map[string]int
	Skipped  int
	Faults   map[string]int
	Probes   [16]int
	Checks   map[string]int
	SimSecs  int
	APICalls map[string]int
}

func newCounters() *Counters {
	return &Counters{Ops: map[string]int{}, Faults: map[string]int{}, Checks: map[string]int{}, APICalls: map[string]int{}}
}

// Sim is one simulated world.
type Sim struct {
	Cfg   Config
	Flags Flags
	Prof  *Profile
	W     *ecs.World
	M     *Model
	ids   [NumTypes]ecs.ID
	pads  []ecs.ID
	// rejTargets: targets of batches from whose callback a rejected call was made on the same mapper (value: epoch)
	rejTargets map[ecs.Entity]int
	scratch    *ecs.World  // a second world of the process (observer objects that served another world)
	primeW     *ecs.World  // a third world, never modified: type-based relation arguments are used there first
	resPads    []ecs.ResID // dynamically registered resource types (C18)

	filters   []*FilterInst
	queries   []*OpenQuery
	observers []*ObsInst
	mappers   map[int]Mapper
	exch      map[string]Exchanger
	resMaps   [4]resAd

	cur    *txn
	OpIdx  int
	Viol   []Violation
	fatal  bool
	C      *Counters
	Trace  []string
	ObsLog []uint64 // canonical observation hash per op (Flags.Observe)
	ObsTxt []string

	skews      []int
	skewUsed   int
	lockDepth  int // expected number of world locks held by open queries
	evTypes    [NumCustom]ecs.EventType
	spareEv    ecs.EventType // a custom event type no observer of the history listens to
	statsCalls int
	lastStats  string
	maxTypes   int
	lastReset  int
	lockMu     *sync.Mutex // ark's world-lock mutex, learned through the lock hook
	prevYield  func(uint8, *sync.Mutex)
	resetSnap  *resetSnapshot
	firedLog   []string
	firedRaw   []firing
	rebuilding bool // a twin world is being rebuilt from a snapshot: inventory limits do not apply
}

// NewSim creates a world per the configuration and registers padding and universe types.
func NewSim(cfg Config, flags Flags, prof *Profile) *Sim {
	debug.SetPanicOnFault(true)
	s := &Sim{Cfg: cfg, Flags: flags, Prof: prof, M: NewModel(), C: newCounters(), mappers: map[int]Mapper{}, exch: map[string]Exchanger{}, lastReset: -1}
	if prof == nil {
		s.Prof = DefaultProfile()
	}
	// fault "the table / archetype list moves" (hook MoveSlices): ark must re-fetch table and
	// archetype pointers after anything that may create a table
	moveCounter = 0
	if cfg.Move > 0 {
		ecs.Verif.MoveSlices = func() bool {
			moveCounter++
			if moveCounter%cfg.Move != 0 {
				return false
			}
			s.C.Faults["storage_list_moved"]++
			return true
		}
	} else {
		ecs.Verif.MoveSlices = nil
	}
	switch {
	case cfg.Cap <= 0:
		s.W = ecs.NewWorld()
	case cfg.RelCap <= 0:
		s.W = ecs.NewWorld(cfg.Cap)
	default:
		s.W = ecs.NewWorld(cfg.Cap, cfg.RelCap)
	}
	for i := 0; i < cfg.Offset; i++ {
		s.pads = append(s.pads, ecs.TypeID(s.W, PadType(i)))
	}
	perm := cfg.Perm
	if len(perm) != NumTypes {
		perm = make([]int, NumTypes)
		for i := range perm {
			perm[i] = i
		}
	}
	for i, t := range perm {
		if cfg.Gap > 0 && i == cfg.Split {
			for k := 0; k < cfg.Gap; k++ {
				s.pads = append(s.pads, ecs.TypeID(s.W, PadType(len(s.pads))))
			}
		}
		s.ids[t] = U[t].ID(s.W)
	}
	var reg ecs.EventRegistry
	for i := range s.evTypes {
		s.evTypes[i] = reg.NewEventType()
	}
	s.spareEv = reg.NewEventType()
	ecs.Verif.Probe = func(id uint8) {
		if int(id) < len(s.C.Probes) {
			s.C.Probes[id]++
		}
	}
	ecs.Verif.Skew = func(t time.Time) time.Time {
		if s.skewUsed < len(s.skews) {
			d := s.skews[s.skewUsed]
			s.skewUsed++
			if d > 0 {
				s.C.Faults["clock_jump"]++
				s.C.SimSecs += d
				return t.Add(-time.Duration(d) * time.Second)
			}
		}
		return t
	}
	s.prevYield = ecs.Verif.Yield
	ecs.Verif.Yield = func(kind uint8, mu *sync.Mutex) {
		if mu != nil {
			s.lockMu = mu
		}
	}
	if cfg.WeakOn {
		Tracker = &WeakTracker{Objs: map[uint64][]weak_t{}}
	} else {
		Tracker = nil
	}
	return s
}

// moveCounter counts the appends seen by the MoveSlices hook.
var moveCounter int

// Done releases global hooks.
func (s *Sim) Done() {
	ecs.Verif.Yield = s.prevYield
	ecs.Verif.Probe = nil
	ecs.Verif.Skew = nil
	ecs.Verif.MoveSlices = nil
	Tracker = nil
}

// ID returns the ark component ID of a universe type.
func (s *Sim) ID(t int) ecs.ID { return s.ids[t] }

func (s *Sim) idFn() func(t int) ecs.ID { return func(t int) ecs.ID { return s.ids[t] } }

// Failed reports whether a fatal violation ended the run.
func (s *Sim) Failed() bool { return s.fatal }

func (s *Sim) violate(prop, oracle, sig string, fatal bool, format string, args ...any) {
	if s.Flags.NoOracles {
		if fatal && oracle == "store.readable" {
			s.fatal = true // the world cannot be read any more; the run ends here also without oracles
		}
		return
	}
	msg := fmt.Sprintf(format, args...)
	if len(msg) > 600 {
		msg = msg[:600] + "..."
	}
	s.Viol = append(s.Viol, Violation{Prop: prop, Oracle: oracle, Sig: prop + "/" + oracle + "/" + sig, Msg: msg, OpIdx: s.OpIdx, Fatal: fatal})
	if fatal {
		s.fatal = true
	}
}

func (s *Sim) tracef(format string, args ...any) {
	if s.Flags.Trace {
		s.Trace = append(s.Trace, fmt.Sprintf(format, args...))
	}
}

// call runs fn and reports whether it panicked (and with what).
func (s *Sim) call(fn func()) (panicked bool, val any) {
	defer func() {
		if r := recover(); r != nil {
			if hb, ok := r.(harnessBug); ok {
				panic(hb)
			}
			panicked = true
			val = r
			s.checkMutexFree(r)
		}
	}()
	fn()
	return false, nil
}

// checkMutexFree verifies after a recovered panic that ark's world-lock mutex was
// not left locked (every later query creation or Close would block for ever).
func (s *Sim) checkMutexFree(r any) {
	if s.lockMu == nil || s.fatal {
		return
	}
	if s.lockMu.TryLock() {
		s.lockMu.Unlock()
		return
	}
	s.violate("C07", "lock.mutex", "left_locked_after_panic", true, "after a recovered panic (%v) the world-lock mutex is still held: every later Query or Close blocks for ever", r)
}

// harnessBug is a panic raised by the harness itself; it is never swallowed.
type harnessBug struct{ msg string }

func (h harnessBug) Error() string { return "harness bug: " + h.msg }

func bug(format string, args ...any) {
	panic(harnessBug{fmt.Sprintf(format, args...)})
}

func (s *Sim) mapper(idx int) Mapper {
	if m, ok := s.mappers[idx]; ok {
		return m
	}
	m := NewMapper(s.W, idx)
	s.mappers[idx] = m
	return m
}

func (s *Sim) exchanger(idx int, rm []int) Exchanger {
	key := fmt.Sprint(idx, rm)
	if x, ok := s.exch[key]; ok {
		return x
	}
	x := NewExchanger(s.W, idx)
	x.Removes(rm)
	s.exch[key] = x
	return x
}

func (s *Sim) locked() bool { return s.lockDepth > 0 }

// handleOf returns the handle for a target label (0 = zero entity).
func (s *Sim) handleOf(label int) ecs.Entity {
	if label == 0 {
		return ecs.Entity{}
	}
	return s.M.Get(label).H
}

// labelOf maps a handle of this epoch to its label (0 = zero entity, -1 = unknown).
func (s *Sim) labelOf(h ecs.Entity) int {
	if h.IsZero() {
		return 0
	}
	if l, ok := s.M.ByHandle[h]; ok {
		return l
	}
	return -1
}

// target resolves a target index to a label (0 = zero entity).
func (s *Sim) target(idx int) int {
	if idx < 0 {
		return 0
	}
	e := s.M.PickLive(idx)
	if e == nil {
		return 0
	}
	return e.Label
}

// relations builds ecs.Relation arguments for the relation components among cs.
// tuple is the generic tuple for RelIdx positions.
func (s *Sim) relations(tuple []int, tgt map[int]int, order []int, style int) []ecs.Relation {
	var out []ecs.Relation
	allType := true
	var key []uint64
	for _, t := range order {
		label, ok := tgt[t]
		if !ok {
			continue
		}
		h := s.handleOf(label)
		st := style
		pos := -1
		for i, x := range tuple {
			if x == t {
				pos = i
			}
		}
		if st == RSIdx && pos < 0 {
			st = RSType
		}
		switch st {
		case RSIdx:
			out = append(out, ecs.RelIdx(pos, h))
			allType = false
		case RSType:
			out = append(out, U[t].Rel(h))
			key = append(key, uint64(t), uint64(h.ID()), uint64(h.Gen()))
		default:
			out = append(out, ecs.RelID(s.ids[t], h))
			allType = false
		}
	}
	if allType && len(out) > 0 {
		// A program may prepare its type-based relation arguments (ecs.Rel[T](target)) once and
		// pass the same slice to every world it runs: the arguments carry no world-specific
		// data. The cache is process-wide on purpose (twin worlds, repeated executions and
		// the histories a worker runs one after the other register their types in different orders).
		k := fmt.Sprint(key)
		if c, ok := relArgCache[k]; ok {
			return c
		}
		if len(relArgCache) > 8192 {
			relArgCache = map[string][]ecs.Relation{}
		}
		out = out[:len(out):len(out)] // an append by a caller must not write into the shared array
		relArgCache[k] = out
		s.primeElsewhere(out, key)
	}
	return out
}

// relArgCache holds type-based relation argument slices shared by all worlds of the process.
var relArgCache = map[string][]ecs.Relation{}

// PollutedCfg returns the same configuration with the universe types registered in the
// reverse order: a world that ran in the same process before, with other component IDs.
func PollutedCfg(cfg Config) Config {
	out := cfg
	// other initial capacities as well: explicit ones where the history uses the defaults
	if cfg.Cap <= 0 {
		out.Cap, out.RelCap = 3, 2
	} else {
		out.Cap, out.RelCap = cfg.Cap+5, 0
	}
	out.Perm = make([]int, NumTypes)
	for i := range out.Perm {
		if len(cfg.Perm) == NumTypes {
			out.Perm[i] = cfg.Perm[NumTypes-1-i]
		} else {
			out.Perm[i] = NumTypes - 1 - i
		}
	}
	return out
}

func relTypesOf(ts []int) []int {
	var out []int
	for _, t := range ts {
		if U[t].IsRel {
			out = append(out, t)
		}
	}
	return out
}

func (s *Sim) vals(op *Op, n int) []uint64 {
	out := make([]uint64, n)
	for i := range out {
		if len(op.Vs) == 0 {
			out[i] = uint64(s.OpIdx)*1000 + uint64(i) + 1
		} else {
			out[i] = op.Vs[i%len(op.Vs)] + uint64(i/len(op.Vs))*0x10000
		}
	}
	return out
}

// targetsFor resolves op.Ts for the relation components in cs (in cs order).
func (s *Sim) targetsFor(op *Op, cs []int) map[int]int {
	tgt := map[int]int{}
	k := 0
	for _, t := range cs {
		if !U[t].IsRel {
			continue
		}
		idx := -1
		if k < len(op.Ts) {
			idx = op.Ts[k]
		}
		tgt[t] = s.target(idx)
		k++
	}
	return tgt
}

func (s *Sim) skip(op *Op) {
	s.C.Skipped++
	s.tracef("%d %s skip", s.OpIdx, op.K)
}

// Run executes a history; it stops at the first fatal violation.
func (s *Sim) Run(ops []Op) {
	for i := range ops {
		if s.fatal {
			return
		}
		s.OpIdx = i
		s.Step(&ops[i])
	}
	if !s.fatal {
		s.OpIdx = len(ops)
		s.Finish()
	}
}

// Finish runs the end-of-run checks; like Step it turns a panic escaping from a
// read of the world into a fatal violation.
func (s *Sim) Finish() {
	defer func() {
		if r := recover(); r != nil {
			if hb, ok := r.(harnessBug); ok {
				panic(hb)
			}
			s.cur = nil
			s.tracef("finish panic")
			s.violate("C01", "store.readable", "finish", true, "reading the world at the end of the run panicked: %v", r)
		}
	}()
	s.finish()
}

// Step executes one op and the per-op oracles. A panic that escapes from a
// read or oracle call into ark (i.e. outside the calls whose panic is an
// expected outcome) means the world can no longer be read: fatal violation.
func (s *Sim) Step(op *Op) {
	defer func() {
		if r := recover(); r != nil {
			if hb, ok := r.(harnessBug); ok {
				panic(hb)
			}
			s.cur = nil
			s.tracef("%d %s read-panic", s.OpIdx, op.K)
			s.violate("C01", "store.readable", op.K, true, "reading the world during/after %s panicked: %v", op.K, r)
		}
	}()
	s.step(op)
}

func (s *Sim) step(op *Op) {
	s.C.Ops[op.K]++
	switch op.K {
	case KNewEntity:
		s.opNewEntity(op)
	case KNewBatch:
		s.opNewBatch(op)
	case KNewEntities:
		s.opNewEntities(op)
	case KCopyEntity:
		s.opCopyEntity(op)
	case KAdd:
		s.opAdd(op)
	case KRemove:
		s.opRemove(op)
	case KExchange:
		s.opExchange(op)
	case KSet:
		s.opSet(op)
	case KSetRel:
		s.opSetRel(op)
	case KAddBatch, KRemoveBatch, KExchangeBatch, KSetRelBatch, KRemoveEntities:
		s.opBatch(op)
	case KRemoveEntity:
		s.opRemoveEntity(op)
	case KReset:
		s.opReset(op)
	case KShrink:
		s.opShrink(op)
	case KStats:
		s.opStats(op)
	case KDumpLoad:
		s.opDumpLoad(op)
	case KNewFilter:
		s.opNewFilter(op)
	case KRegister:
		s.opRegister(op, true)
	case KUnregister:
		s.opRegister(op, false)
	case KOpenQuery:
		s.opOpenQuery(op)
	case KNext:
		s.opNext(op)
	case KCloseQuery:
		s.opCloseQuery(op)
	case KSweep:
		s.opSweep(op)
	case KNewObserver:
		s.opNewObserver(op)
	case KRegObs:
		s.opRegObs(op, true)
	case KUnregObs:
		s.opRegObs(op, false)
	case KEmit:
		s.opEmit(op)
	case KResource:
		s.opResource(op)
	case KGC:
		s.opGC(op)
	case KMisuse:
		s.opMisuse(op)
	case KBigBatch:
		s.opBigBatch(op)
	case KMatrix:
		s.opMatrix(op)
	case KCodec:
		s.opCodec(op)
	case KQMisuse:
		s.opQMisuse(op)
	case KRegistry:
		s.opRegistry(op)
	case KBatchUse:
		s.opBatchUse(op)
	default:
		bug("unknown op kind %q", op.K)
	}
	if s.fatal {
		return
	}
	s.afterOp(op)
}

// sortedLabels returns the keys of a label set, ascending.
func sortedLabels(m map[int]bool) []int {
	out := make([]int, 0, len(m))
	for k := range m {
		out = append(out, k)
	}
	sort.Ints(out)
	return out
}

func fmtInts(a []int) string {
	parts := make([]string, len(a))
	for i, x := range a {
		parts[i] = fmt.Sprint(x)
	}
	return "[" + strings.Join(parts, ",") + "]"
}

func ptrOf(p unsafe.Pointer) uintptr { return uintptr(p) }

// primeElsewhere uses freshly built type-based relation arguments once in another world of the
// process (other component IDs) before the simulated world sees them: a query of a typed filter
// there. Whatever that query does is of no interest; the arguments must come back unchanged.
func (s *Sim) primeElsewhere(rels []ecs.Relation, key []uint64) {
	if s.primeW == nil {
		s.primeW = ecs.NewWorld(16)
		for t := NumTypes - 1; t >= 0; t-- {
			U[t].ID(s.primeW)
		}
		s.primeW.NewEntities(4096, nil)
	}
	var ts []int
	for i := 0; i+2 < len(key); i += 3 {
		if key[i+1] >= 4000 {
			return // the target's ID does not exist in the other world
		}
		ts = append(ts, int(key[i]))
	}
	w2 := s.primeW
	s.call(func() {
		q := ecs.NewFilter0(w2).With(comps(ts)...).Query(rels...)
		q.Close()
	})
	s.C.Faults["relation_args_used_in_other_world_first"]++
}
