package sim

import (
	"fmt"
	"sort"
)

// RunResult is the outcome of one run.
type RunResult struct {
	Seed     uint64
	Worker   int
	Run      int
	Cfg      Config
	Mode     string
	Ops      []Op
	Viol     []Violation
	C        *Counters
	State    uint64
	Steps    int
	Trace    []string
	NonTriv  bool
	Entities int
}

// RunStream derives the per-run PRNG stream.
func RunStream(seed uint64, prop string, tier string, worker, run int) *Rng {
	var p uint64
	for _, c := range prop + "/" + tier {
		p = p*131 + uint64(c)
	}
	return NewRng(seed, p, uint64(worker), uint64(run))
}

// Tiny reports whether the binary was built with ark_tiny (64 component types).
func Tiny() bool { return tinyBuild }

// GenRun generates and executes one history online.
func GenRun(prop, tier string, seed uint64, worker, run int) *RunResult {
	r := RunStream(seed, prop, tier, worker, run)
	prof := ProfileFor(prop, tier, r)
	cfg := DrawConfig(r, prof, Tiny())
	cfg.WeakOn = prop == "C11"
	flags := Flags{}
	s := NewSim(cfg, flags, prof)
	defer s.Done()
	g := NewGen(r, prof, s)
	n := r.Range(prof.MinOps, prof.MaxOps)
	res := &RunResult{Seed: seed, Worker: worker, Run: run, Cfg: cfg}
	for i := 0; i < n && !s.fatal; i++ {
		op := g.Next()
		g.Ops = append(g.Ops, op)
		s.OpIdx = i
		s.Step(&g.Ops[i])
	}
	if !s.fatal {
		s.OpIdx = len(g.Ops)
		s.Finish()
	}
	res.Ops = g.Ops
	fill(res, s, prop)
	return res
}

func fill(res *RunResult, s *Sim, prop string) {
	res.Viol = s.Viol
	res.C = s.C
	res.State = s.AbstractState()
	res.Steps = s.OpIdx
	res.Trace = s.Trace
	res.Entities = len(s.M.Live)
	res.NonTriv = NonTrivial(prop, s)
}

// ExecOps executes a recorded history (replay); no PRNG involved.
func ExecOps(prop string, cfg Config, flags Flags, prof *Profile, ops []Op) (*RunResult, *Sim) {
	cfg.WeakOn = prop == "C11"
	s := NewSim(cfg, flags, prof)
	defer s.Done()
	s.Run(ops)
	res := &RunResult{Cfg: cfg, Ops: ops}
	fill(res, s, prop)
	return res, s
}

// NonTrivial applies the per-property rule for counting a run as non-trivial.
func NonTrivial(prop string, s *Sim) bool {
	c := s.C
	pr := func(id uint8) int { return c.Probes[id] }
	switch prop {
	case "C01":
		return pr(probeSwapRemove) > 0 && pr(probeTableGrow) > 0 && (c.Ops[KAddBatch]+c.Ops[KRemoveBatch]+c.Ops[KExchangeBatch]+c.Ops[KNewBatch] > 0)
	case "C02":
		return s.M.Removals > 2 && s.M.Creations > s.M.Removals
	case "C03":
		return c.Checks["query.exact"] > 3 && pr(probeTableFreedCleanup)+pr(probeTableRecycled) > 0
	case "C04":
		return pr(probeChildrenMoved) > 0 && pr(probeTableRecycled) > 0
	case "C05":
		return c.Checks["cache.same.registered"] > 0 && pr(probeCacheRemove)+pr(probeTableRecycled) > 0
	case "C06":
		return c.Faults["batch_entities"] > 2
	case "C07":
		return c.Faults["held_queries"] >= 3 && c.Faults["early_close"] > 0 && c.Checks["lock.blocks"] > 0
	case "C08":
		return c.Checks["obs.exact"] > 5 && c.Faults["cb_invocations"] > 2
	case "C09":
		return c.Checks["cb.inspect"] > 2
	case "C10":
		return c.Checks["pre.panics"] > 2
	case "C11":
		return c.Checks["mem.released"] > 0 && c.Checks["mem.zero"] > 0
	case "C15":
		return c.Faults["shrink"] > 0 && pr(probeTableShrink)+pr(probeTableFreedShrink) > 0
	case "C16":
		return c.Faults["reset"] > 0
	case "C17":
		return c.Checks["dump.roundtrip"] > 0 && s.M.Removals > 0
	case "C18":
		return c.Checks["res.map"] > 0 || c.Checks["reg.capacity"] > 0
	case "C19":
		return c.Checks["stats.invariants"] > 2
	}
	return len(s.M.Ents) > 3
}

// Signature set of a result for property prop.
func (r *RunResult) ViolationsOf(prop string) []Violation {
	var out []Violation
	for _, v := range r.Viol {
		if v.Prop == prop {
			out = append(out, v)
		}
	}
	return out
}

// Foreign counts violations of other properties.
func (r *RunResult) Foreign(prop string) map[string]int {
	out := map[string]int{}
	for _, v := range r.Viol {
		if v.Prop != prop {
			out[v.Prop]++
		}
	}
	return out
}

// Minimise shrinks a failing history with ddmin while a violation with the same
// signature persists. exec must be a pure function of the op list.
func Minimise(ops []Op, sig string, budget int, exec func(ops []Op) []Violation) []Op {
	has := func(o []Op) bool {
		if budget <= 0 {
			return false
		}
		budget--
		for _, v := range exec(o) {
			if v.Sig == sig {
				return true
			}
		}
		return false
	}
	cur := append([]Op{}, ops...)
	n := 2
	for len(cur) >= 2 && budget > 0 {
		chunk := (len(cur) + n - 1) / n
		reduced := false
		for start := 0; start < len(cur); start += chunk {
			end := start + chunk
			if end > len(cur) {
				end = len(cur)
			}
			cand := append(append([]Op{}, cur[:start]...), cur[end:]...)
			if len(cand) > 0 && has(cand) {
				cur = cand
				n = max(n-1, 2)
				reduced = true
				break
			}
		}
		if !reduced {
			if chunk == 1 {
				break
			}
			n = min(n*2, len(cur))
		}
	}
	// per-op simplification
	for i := range cur {
		if budget <= 0 {
			break
		}
		o := cur[i]
		simpler := []Op{}
		if len(o.Scr) > 0 {
			c := o
			c.Scr = nil
			simpler = append(simpler, c)
		}
		if o.N > 1 && (o.K == KNewBatch || o.K == KNewEntities) {
			c := o
			c.N = 1
			simpler = append(simpler, c)
		}
		if o.Fn != FnValue {
			c := o
			c.Fn = FnValue
			simpler = append(simpler, c)
		}
		for _, c := range simpler {
			cand := append([]Op{}, cur...)
			cand[i] = c
			if has(cand) {
				cur = cand
			}
		}
	}
	return cur
}

func max(a, b int) int {
	if a > b {
		return a
	}
	return b
}

// SortedKeys returns the sorted keys of a counter map.
func SortedKeys(m map[string]int) []string {
	ks := make([]string, 0, len(m))
	for k := range m {
		ks = append(ks, k)
	}
	sort.Strings(ks)
	return ks
}

// Describe renders an op list compactly (evidence samples).
func Describe(ops []Op, limit int) []string {
	var out []string
	for i, o := range ops {
		if i >= limit {
			out = append(out, fmt.Sprintf("... (%d more)", len(ops)-limit))
			break
		}
		s := o.K
		if o.M != "" {
			s += ":" + o.M
		}
		s += fmt.Sprintf(" p=%d ad=%d e=%d", o.P, o.Ad, o.E)
		if len(o.Cs) > 0 {
			s += fmt.Sprintf(" cs=%v", o.Cs)
		}
		if len(o.Rm) > 0 {
			s += fmt.Sprintf(" rm=%v", o.Rm)
		}
		if o.N != 0 {
			s += fmt.Sprintf(" n=%d", o.N)
		}
		out = append(out, s)
	}
	return out
}
