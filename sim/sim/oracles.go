package sim

import (
	"fmt"
	"hash/fnv"
	"sort"
	"strings"

	"github.com/mlange-42/ark/ecs"
)

// Per-op oracles.

func (s *Sim) afterOp(op *Op) {
	if s.Flags.Observe {
		s.observe()
	}
	if s.Flags.NoOracles {
		return
	}
	p := s.Prof
	every := 1
	if len(s.M.Live) > 300 {
		every = 8
	}
	if s.OpIdx%every != 0 {
		return
	}
	if p.SweepEvery > 0 && s.OpIdx%p.SweepEvery == 0 && s.lockDepth < 60 {
		// the property's own query oracles run before the (fatal) store comparison,
		// so that a defect visible to both is also reported under this property
		s.opSweep(&Op{K: KSweep})
		if s.fatal {
			return
		}
	}
	if p.StoreEvery > 0 && s.OpIdx%p.StoreEvery == 0 {
		s.checkStore(op.K)
	}
	if s.fatal {
		return
	}
	if p.PoolEvery > 0 && s.OpIdx%p.PoolEvery == 0 {
		s.checkPool(op.K)
	}
	if p.LockEvery > 0 && s.OpIdx%p.LockEvery == 0 {
		s.checkLock(op.K)
	}
	if p.StatsEvery > 0 && s.OpIdx%p.StatsEvery == 0 && !s.Flags.DropStats {
		s.checkStats()
	}
}

// checkStore: C01 store.faithful, C04 rel.target.
func (s *Sim) checkStore(after string) {
	u := s.W.Unsafe()
	s.C.Checks["store.faithful"]++
	deep := s.Prof.MapGetEvery > 0 && s.OpIdx%s.Prof.MapGetEvery == 0
	for _, l := range s.M.Live {
		e := s.M.Ents[l-1]
		h := e.H
		var ids ecs.IDs
		pn, val := s.call(func() { ids = u.IDs(h) })
		if pn {
			s.violate("C02", "pool.alive_exact", after+"/ids", true, "entity label %d (%v) is alive in the model, Unsafe.IDs panicked: %v", l, h, val)
			return
		}
		if ids.Len() != len(e.Comps) {
			got := s.typesOfIDs(ids)
			s.violate("C01", "store.faithful", after+"/compset", true, "after %s entity label %d has components %v, expected %v", after, l, got, e.Types())
			return
		}
		for _, tp := range e.Types() {
			id := s.ids[tp]
			if !u.Has(h, id) {
				s.violate("C01", "store.faithful", after+"/compset", true, "after %s entity label %d lacks T%02d; has %v, expected %v", after, l, tp, s.typesOfIDs(ids), e.Types())
				return
			}
			ptr := u.Get(h, id)
			got := U[tp].Get(ptr)
			if got != e.Comps[tp] {
				prop, oracle := "C01", "store.faithful"
				if got == BadValue && U[tp].IsPtr {
					prop, oracle = "C11", "mem.intact"
				}
				s.violate(prop, oracle, after+"/value", true, "after %s entity label %d component T%02d reads %#x, last written %#x", after, l, tp, got, e.Comps[tp])
				return
			}
			if U[tp].IsRel {
				tg := u.GetRelation(h, id)
				want := s.handleOf(e.Tgt[tp])
				if ep, ok := s.rejTargets[tg]; ok && tg != want && ep == s.M.Epoch {
					s.violate("C07", "lock.blocks", "callback_same_mapper/effect", true, "after %s entity label %d relation T%02d has target %v, expected %v (label %d): %v was the target given to a SetRelationsBatch from whose callback a rejected SetRelations was called on the same mapper", after, l, tp, tg, want, e.Tgt[tp], tg)
					return
				}
				if tg != want {
					s.violate("C04", "rel.target", after, true, "after %s entity label %d relation T%02d has target %v, expected %v (label %d)", after, l, tp, tg, want, e.Tgt[tp])
					return
				}
				if !tg.IsZero() && !s.W.Alive(tg) {
					s.violate("C04", "rel.target", after+"/dead", true, "after %s entity label %d relation T%02d targets dead entity %v", after, l, tp, tg)
					return
				}
			}
			if deep {
				if u.GetUnchecked(h, id) != ptr || !u.HasUnchecked(h, id) {
					s.violate("C14", "api.equiv", "Unsafe.GetUnchecked", false, "Unsafe.GetUnchecked/HasUnchecked differ from Get/Has for entity label %d T%02d", l, tp)
					return
				}
				m := s.mapper(tp)
				p := m.Get(h)
				s.C.Checks["api.pointers"]++
				if p[0] != ptr {
					s.violate("C14", "api.pointers", "Map.Get", false, "Map[T%02d].Get = %x, Unsafe.Get = %x for entity label %d", tp, ptrOf(p[0]), ptrOf(ptr), l)
					return
				}
				if !m.HasAll(h) {
					s.violate("C14", "api.equiv", "Map.Has", false, "Map[T%02d].Has false for entity label %d that has the component", tp, l)
					return
				}
				if U[tp].IsRel && m.GetRelation(h, 0) != s.handleOf(e.Tgt[tp]) {
					s.violate("C14", "api.equiv", "Map.GetRelation", false, "Map[T%02d].GetRelation differs from Unsafe.GetRelation for entity label %d", tp, l)
					return
				}
			}
		}
	}
	if deep {
		s.checkMappers()
	}
}

// checkMappers reads a few entities through MapN adapters of all arities (C14 api.pointers).
func (s *Sim) checkMappers() {
	if len(s.M.Live) == 0 {
		return
	}
	u := s.W.Unsafe()
	start := (s.OpIdx * 7) % len(MapTuples)
	for k := 0; k < 12; k++ {
		idx := NumMapSingles + (start+k*5)%(len(MapTuples)-NumMapSingles)
		tuple := MapTuples[idx]
		m := s.mapper(idx)
		e := s.M.Get(s.M.Live[(s.OpIdx+k)%len(s.M.Live)])
		s.count(fmt.Sprintf("Map%d.Get", len(tuple)))
		ptrs := m.Get(e.H)
		all := true
		for i, tp := range tuple {
			if _, has := e.Comps[tp]; !has {
				all = false
				if ptrs[i] != nil {
					s.violate("C14", "api.pointers", fmt.Sprintf("Map%d.Get/missing", len(tuple)), false, "Map%d.Get returned non-nil pointer %d (T%02d) for entity label %d which lacks the component", len(tuple), i, tp, e.Label)
					return
				}
				continue
			}
			want := u.Get(e.H, s.ids[tp])
			s.C.Checks["api.pointers"]++
			if ptrs[i] != want {
				s.violate("C14", "api.pointers", fmt.Sprintf("Map%d.Get", len(tuple)), false, "Map%d.Get pointer %d (T%02d) = %x, Unsafe.Get = %x for entity label %d", len(tuple), i, tp, ptrOf(ptrs[i]), ptrOf(want), e.Label)
				return
			}
		}
		// the unchecked variants are equivalent for alive entities
		s.count(fmt.Sprintf("Map%d.GetUnchecked", len(tuple)))
		up := m.GetUnchecked(e.H)
		for i := range tuple {
			if up[i] != ptrs[i] {
				s.violate("C14", "api.pointers", fmt.Sprintf("Map%d.GetUnchecked", len(tuple)), false, "Map%d.GetUnchecked pointer %d = %x, Get = %x for entity label %d", len(tuple), i, ptrOf(up[i]), ptrOf(ptrs[i]), e.Label)
				return
			}
		}
		if m.HasAll(e.H) != all {
			s.violate("C14", "api.equiv", fmt.Sprintf("Map%d.HasAll", len(tuple)), false, "Map%d.HasAll = %v for entity label %d with components %v (tuple %v)", len(tuple), !all, e.Label, e.Types(), tuple)
			return
		}
		for i, tp := range tuple {
			if U[tp].IsRel && e.Has(tp) {
				s.count(fmt.Sprintf("Map%d.GetRelation", len(tuple)))
				if got, want := m.GetRelationUnchecked(e.H, i), u.GetRelationUnchecked(e.H, s.ids[tp]); got != want {
					s.violate("C14", "api.relidx", fmt.Sprintf("Map%d.GetRelationUnchecked", len(tuple)), false, "Map%d.GetRelationUnchecked(e, %d) = %v, Unsafe.GetRelationUnchecked(T%02d) = %v", len(tuple), i, got, tp, want)
					return
				}
				if got, want := m.GetRelation(e.H, i), u.GetRelation(e.H, s.ids[tp]); got != want {
					s.violate("C14", "api.relidx", fmt.Sprintf("Map%d.GetRelation", len(tuple)), false, "Map%d.GetRelation(e, %d) = %v, Unsafe.GetRelation(T%02d) = %v", len(tuple), i, got, tp, want)
					return
				}
			}
		}
	}
}

func (s *Sim) typesOfIDs(ids ecs.IDs) []int {
	var out []int
	for i := 0; i < ids.Len(); i++ {
		id := ids.Get(i)
		t := -1
		for k := range s.ids {
			if s.ids[k] == id {
				t = k
			}
		}
		if t < 0 {
			t = 1000 + int(id.Index())
		}
		out = append(out, t)
	}
	sort.Ints(out)
	return out
}

// checkPool: C02 pool.alive_exact, pool.count.
func (s *Sim) checkPool(after string) {
	s.C.Checks["pool.alive_exact"]++
	n := 0
	for _, e := range s.M.Ents {
		if len(s.M.Ents) > 3000 && (e.Label+s.OpIdx)%8 != 0 {
			continue
		}
		n++
		if got := s.W.Alive(e.H); got != e.Alive {
			s.violate("C02", "pool.alive_exact", after, true, "after %s Alive(%v) = %v for entity label %d, expected %v", after, e.H, got, e.Label, e.Alive)
			return
		}
	}
	st := s.W.Stats()
	exp := s.M.Creations - s.M.Removals
	// A wrong count ends the run only in the C02 check: in the checks of the other properties
	// the run goes on, so that a defect that first shows as a ghost row is also reported by
	// the property's own oracles (store, relations, queries) a few operations later.
	fatal := s.Prof.Name == "C02" || s.Prof.Name == "default"
	if st.Entities.Used != exp || len(s.M.Live) != exp {
		s.violate("C02", "pool.count", after, fatal, "after %s Stats().Entities.Used = %d, creations - removals = %d", after, st.Entities.Used, exp)
		return
	}
	if s.lockDepth < 64 {
		f := ecs.NewFilter0(s.W)
		q := f.Query()
		c := q.Count()
		q.Close()
		if c != exp {
			s.violate("C02", "pool.count", after+"/filter0", fatal, "after %s Filter0 count = %d, creations - removals = %d", after, c, exp)
		}
	}
}

// checkLock: C07 lock.state / lock.release.
func (s *Sim) checkLock(after string) {
	s.C.Checks["lock.state"]++
	if got := s.W.IsLocked(); got != s.locked() {
		oracle := "lock.state"
		if !s.locked() {
			oracle = "lock.release"
		}
		s.violate("C07", oracle, after, true, "after %s IsLocked() = %v with %d queries open", after, got, s.lockDepth)
	}
}

// observe records a canonical observation of the real world (twin comparison):
// per label alive/components/values/targets-as-labels, read through the ID-based
// API only, plus the result of every filter as a sorted label list.
func (s *Sim) observe() {
	var b strings.Builder
	u := s.W.Unsafe()
	for _, e := range s.M.Ents {
		alive := s.W.Alive(e.H)
		if !alive {
			fmt.Fprintf(&b, "%d:dead;", e.Label)
			continue
		}
		fmt.Fprintf(&b, "%d:", e.Label)
		ids := u.IDs(e.H)
		type cv struct {
			t   int
			v   uint64
			tgt int
		}
		var cs []cv
		for i := 0; i < ids.Len(); i++ {
			id := ids.Get(i)
			t := -1
			for k := range s.ids {
				if s.ids[k] == id {
					t = k
				}
			}
			if t < 0 {
				cs = append(cs, cv{t: 1000 + int(id.Index())})
				continue
			}
			c := cv{t: t, v: U[t].Get(u.Get(e.H, id)), tgt: -2}
			if U[t].IsRel {
				c.tgt = s.labelOf(u.GetRelation(e.H, id))
			}
			cs = append(cs, c)
		}
		sort.Slice(cs, func(i, j int) bool { return cs[i].t < cs[j].t })
		for _, c := range cs {
			fmt.Fprintf(&b, "T%d=%x", c.t, c.v)
			if c.tgt != -2 {
				fmt.Fprintf(&b, "->%d", c.tgt)
			}
			b.WriteByte(',')
		}
		b.WriteByte(';')
	}
	if s.lockDepth < 60 {
		for fi, f := range s.filters {
			for w, fl := range []Filterer{f.A, f.B} {
				q := fl.Query(nil)
				var ls []int
				for q.Next() {
					ls = append(ls, s.labelOf(q.Entity()))
				}
				sort.Ints(ls)
				fmt.Fprintf(&b, "|f%d.%d=%v", fi, w, ls)
			}
		}
	}
	fmt.Fprintf(&b, "|locked=%v", s.W.IsLocked())
	for _, f := range s.firedRaw {
		s.firedLog = append(s.firedLog, fmt.Sprintf("%d:%d:%d", f.Obs, f.Ev, s.labelOf(f.H)))
	}
	s.firedRaw = s.firedRaw[:0]
	sort.Strings(s.firedLog)
	fmt.Fprintf(&b, "|fired=%v", s.firedLog)
	s.firedLog = s.firedLog[:0]
	txt := b.String()
	h := fnv.New64a()
	h.Write([]byte(txt))
	s.ObsLog = append(s.ObsLog, h.Sum64())
	s.ObsTxt = append(s.ObsTxt, txt)
}

// finish runs the end-of-run checks: open queries are completed, all filters swept.
func (s *Sim) finish() {
	for _, q := range s.queries {
		for !q.Done && !s.fatal {
			s.stepQuery(q)
		}
	}
	if s.fatal {
		return
	}
	if !s.Flags.NoOracles {
		s.checkLock("finish")
		s.checkStore("finish")
		if s.fatal {
			return
		}
		s.checkPool("finish")
		if s.fatal {
			return
		}
		s.opSweep(&Op{K: KSweep})
		if s.fatal {
			return
		}
		s.checkStats()
		if Tracker != nil {
			s.checkMemory()
		}
	}
	if s.Flags.Trace {
		s.Trace = append(s.Trace, "final "+s.StatsDump())
	}
}

// AbstractState hashes the shape of the final world (for distinct-state counting).
func (s *Sim) AbstractState() uint64 {
	shapes := map[string]int{}
	for _, l := range s.M.Live {
		e := s.M.Ents[l-1]
		k := fmt.Sprint(e.Types())
		for _, t := range relTypesOf(e.Types()) {
			if e.Tgt[t] == 0 {
				k += "z"
			} else {
				k += "t"
			}
		}
		shapes[k]++
	}
	var keys []string
	for k, n := range shapes {
		b := 0
		for n > 0 {
			b++
			n >>= 1
		}
		keys = append(keys, fmt.Sprintf("%s#%d", k, b))
	}
	sort.Strings(keys)
	reg, obs := 0, 0
	for _, f := range s.filters {
		if f.Registered {
			reg++
		}
	}
	for _, o := range s.observers {
		if o.Registered {
			obs++
		}
	}
	h := fnv.New64a()
	fmt.Fprintf(h, "%v|%d|%d|%d", keys, reg, obs, s.lockDepth)
	return h.Sum64()
}
