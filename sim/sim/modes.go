package sim

import (
	"fmt"
	"strings"

	"github.com/mlange-42/ark/ecs"
)

// Twin-world modes: the same history is executed by a second real ark world
// through a transformation; canonical observations are compared op by op.

// ModeFor selects the execution mode of a run.
func ModeFor(prop string, run int) string {
	switch prop {
	case "C05":
		if run%3 == 2 {
			return "twin:cache"
		}
	case "C06":
		if run%2 == 1 {
			return "twin:singles"
		}
	case "C14":
		if run%4 != 0 {
			return "twin:unsafe"
		}
	case "C15":
		if run%2 == 1 {
			return "twin:shrink"
		}
	case "C16":
		if run%2 == 1 {
			return "twin:reset"
		}
	case "C19":
		if run%2 == 1 {
			return "twin:stats"
		}
	}
	return ""
}

func twinFlags(mode string) Flags {
	f := Flags{Observe: true, NoOracles: true}
	switch mode {
	case "twin:cache":
		f.VirtualCache = true
	case "twin:singles":
		f.AsSingles = true
	case "twin:unsafe":
		f.ForceUnsafe = true
	case "twin:shrink":
		f.DropShrink = true
	case "twin:stats":
		f.DropStats = true
		f.Observe = false
	}
	return f
}

func twinOracle(mode string) (prop, oracle string) {
	switch mode {
	case "twin:cache":
		return "C05", "cache.batch_same"
	case "twin:singles":
		return "C06", "batch.equiv"
	case "twin:unsafe":
		return "C14", "api.equiv"
	case "twin:shrink":
		return "C15", "shrink.invisible"
	case "twin:reset":
		return "C16", "reset.equiv"
	case "twin:stats":
		return "C19", "stats.incremental"
	}
	return "", ""
}

// RunMode generates one history online and, in a twin mode, replays it on the twin world.
func RunMode(prop, tier string, seed uint64, worker, run int, mode string) *RunResult {
	r := RunStream(seed, prop, tier, worker, run)
	prof := ProfileFor(prop, tier, r)
	if mode != "" {
		// Callback actions that change observer registration make the set of firings
		// depend on the iteration order of a batch, which legitimately differs between
		// twin worlds; twin runs use passive callbacks only.
		prof.CbActions = []int{CbNothing, CbRead, CbQuery, CbGC}
	}
	cfg := DrawConfig(r, prof, Tiny())
	cfg.WeakOn = prop == "C11"
	flags := Flags{Observe: mode != "" && mode != "twin:stats"}
	s := NewSim(cfg, flags, prof)
	g := NewGen(r, prof, s)
	n := r.Range(prof.MinOps, prof.MaxOps)
	res := &RunResult{Seed: seed, Worker: worker, Run: run, Cfg: cfg, Mode: mode}
	for i := 0; i < n && !s.fatal; i++ {
		op := g.Next()
		g.Ops = append(g.Ops, op)
		s.OpIdx = i
		s.Step(&g.Ops[i])
	}
	if !s.fatal {
		s.OpIdx = len(g.Ops)
		s.Finish()
	}
	res.Ops = g.Ops
	fill(res, s, prop)
	s.Done()
	if mode != "" && !s.fatal {
		if v := runTwin(prop, mode, cfg, prof, res.Ops, s); v != nil {
			res.Viol = append(res.Viol, *v)
		}
	} else if mode != "" {
		if v := twinOnFatal(prop, mode, cfg, prof, res.Ops, s); v != nil {
			res.Viol = append(res.Viol, *v)
		}
	}
	return res
}

// twinOnFatal: twin A ended with a fatal violation (of whatever property). If the
// twin world B executes the same history without a fatal violation, then the
// transformation the property declares invisible (registering filters, Shrink,
// Reset vs fresh world, batch vs singles, typed vs ID-based) made the difference.
func twinOnFatal(prop, mode string, cfg Config, prof *Profile, ops []Op, a *Sim) *Violation {
	tprop, oracle := twinOracle(mode)
	if tprop != prop || mode == "twin:stats" {
		return nil
	}
	var fv *Violation
	for i := range a.Viol {
		if a.Viol[i].Fatal {
			fv = &a.Viol[i]
			break
		}
	}
	if fv == nil || fv.Prop == prop {
		return nil
	}
	end := fv.OpIdx + 1
	if end > len(ops) {
		end = len(ops)
	}
	cfg.WeakOn = false
	flags := twinFlags(mode)
	flags.NoOracles = false
	flags.Observe = false
	var b *Sim
	if mode == "twin:reset" {
		k := a.lastReset
		if k < 0 || a.resetSnap == nil || fv.OpIdx <= k {
			return nil
		}
		b = NewSim(cfg, Flags{}, prof)
		defer b.Done()
		for len(b.pads) < a.resetSnap.pads {
			b.pads = append(b.pads, ecs.TypeID(b.W, PadType(len(b.pads))))
		}
		b.rebuilding = true
		for _, spec := range a.resetSnap.filters {
			sp := spec
			b.opNewFilter(&Op{K: KNewFilter, Spec: &sp})
		}
		for _, o := range a.resetSnap.observers {
			sp := o.Spec
			b.opNewObserver(&Op{K: KNewObserver, Obs: &sp, Scr: o.Script, N: 1})
			if o.Invalid && len(b.observers) > 0 {
				b.observers[len(b.observers)-1].Invalid = true
			}
		}
		b.rebuilding = false
		for i := k + 1; i < end && !b.fatal; i++ {
			b.OpIdx = i
			b.Step(&ops[i])
		}
	} else {
		b = NewSim(cfg, flags, prof)
		defer b.Done()
		for i := 0; i < end && !b.fatal; i++ {
			b.OpIdx = i
			b.Step(&ops[i])
		}
	}
	if b.fatal {
		return nil
	}
	k := "?"
	if fv.OpIdx < len(ops) {
		k = ops[fv.OpIdx].K
	}
	return &Violation{Prop: prop, Oracle: oracle, Sig: prop + "/" + oracle + "/fails_only_in_A/" + k, OpIdx: fv.OpIdx, Fatal: false,
		Msg: fmt.Sprintf("the history fails at op %d (%s) with [%s] %s -- but the twin world (%s) executes it without failure", fv.OpIdx, k, fv.Sig, clip(fv.Msg, 300), mode)}
}

// ExecMode executes a recorded history in the given mode and returns all violations.
func ExecMode(prop, tier, mode string, cfg Config, ops []Op) []Violation {
	prof := ProfileFor(prop, tier, nil)
	flags := Flags{Observe: mode != "" && mode != "twin:stats"}
	res, s := ExecOps(prop, cfg, flags, prof, ops)
	viol := res.Viol
	if mode != "" && !s.fatal {
		if v := runTwin(prop, mode, cfg, prof, ops, s); v != nil {
			viol = append(viol, *v)
		}
	} else if mode != "" {
		if v := twinOnFatal(prop, mode, cfg, prof, ops, s); v != nil {
			viol = append(viol, *v)
		}
	}
	return viol
}

// runTwin executes twin B and compares it with twin A (already executed as a).
func runTwin(prop, mode string, cfg Config, prof *Profile, ops []Op, a *Sim) *Violation {
	tprop, oracle := twinOracle(mode)
	if tprop != prop {
		return nil
	}
	cfg.WeakOn = false
	if mode == "twin:reset" {
		return runResetTwin(cfg, prof, ops, a)
	}
	b := NewSim(cfg, twinFlags(mode), prof)
	defer b.Done()
	b.Run(ops)
	if mode == "twin:stats" {
		sa, sb := a.StatsDump(), b.StatsDump()
		if sa != sb {
			return &Violation{Prop: prop, Oracle: oracle, Sig: prop + "/" + oracle + "/final", OpIdx: len(ops), Fatal: false,
				Msg: fmt.Sprintf("Stats() of a world that was asked %d times during the history differs from a world that replays the history and is asked once: %s", a.statsCalls, diffText(sa, sb))}
		}
		return nil
	}
	n := len(a.ObsLog)
	if len(b.ObsLog) < n {
		n = len(b.ObsLog)
	}
	for i := 0; i < n; i++ {
		if a.ObsLog[i] != b.ObsLog[i] {
			k := "?"
			if i < len(ops) {
				k = ops[i].K
			}
			return &Violation{Prop: prop, Oracle: oracle, Sig: prop + "/" + oracle + "/" + k, OpIdx: i, Fatal: false,
				Msg: fmt.Sprintf("twin worlds (%s) diverge after op %d (%s): %s", mode, i, k, diffText(a.ObsTxt[i], b.ObsTxt[i]))}
		}
	}
	if len(a.ObsLog) != len(b.ObsLog) {
		return &Violation{Prop: prop, Oracle: oracle, Sig: prop + "/" + oracle + "/length", OpIdx: n, Fatal: false,
			Msg: fmt.Sprintf("twin worlds (%s) executed %d vs %d ops", mode, len(a.ObsLog), len(b.ObsLog))}
	}
	return nil
}

// runResetTwin compares the history after the last Reset with the same
// history on a fresh world that defines the same filters and observers.
func runResetTwin(cfg Config, prof *Profile, ops []Op, a *Sim) *Violation {
	k := a.lastReset
	if k < 0 || a.resetSnap == nil {
		return nil
	}
	b := NewSim(cfg, Flags{Observe: true, NoOracles: true}, prof)
	defer b.Done()
	// "a new world with the same component types registered in the same order"
	for len(b.pads) < a.resetSnap.pads {
		b.pads = append(b.pads, ecs.TypeID(b.W, PadType(len(b.pads))))
	}
	b.rebuilding = true
	for _, spec := range a.resetSnap.filters {
		sp := spec
		b.opNewFilter(&Op{K: KNewFilter, Spec: &sp})
	}
	for _, o := range a.resetSnap.observers {
		sp := o.Spec
		b.opNewObserver(&Op{K: KNewObserver, Obs: &sp, Scr: o.Script, N: 1})
		if o.Invalid && len(b.observers) > 0 {
			b.observers[len(b.observers)-1].Invalid = true
		}
	}
	b.rebuilding = false
	if len(b.observers) != len(a.resetSnap.observers) || len(b.filters) != len(a.resetSnap.filters) {
		bug("reset twin: rebuilt %d observers / %d filters, snapshot has %d / %d", len(b.observers), len(b.filters), len(a.resetSnap.observers), len(a.resetSnap.filters))
	}
	for i := k + 1; i < len(ops) && !b.fatal; i++ {
		b.OpIdx = i
		b.Step(&ops[i])
	}
	for i := k + 1; i < len(ops); i++ {
		j := i - (k + 1)
		if i >= len(a.ObsLog) || j >= len(b.ObsLog) {
			break
		}
		if a.ObsLog[i] != b.ObsLog[j] {
			return &Violation{Prop: "C16", Oracle: "reset.equiv", Sig: "C16/reset.equiv/" + ops[i].K, OpIdx: i, Fatal: false,
				Msg: fmt.Sprintf("after Reset (op %d) the world diverges from a fresh world at op %d (%s): %s", k, i, ops[i].K, diffText(a.ObsTxt[i], b.ObsTxt[j]))}
		}
	}
	return nil
}

type resetSnapshot struct {
	pads      int
	filters   []FilterSpec
	observers []*ObsInst
}

// diffText shows the first difference of two observation strings.
func diffText(a, b string) string {
	pa, pb := strings.Split(a, ";"), strings.Split(b, ";")
	if len(pa) == 1 {
		pa, pb = strings.Split(a, ","), strings.Split(b, ",")
	}
	for i := 0; i < len(pa) && i < len(pb); i++ {
		if pa[i] != pb[i] {
			return fmt.Sprintf("A has %q, B has %q", clip(pa[i], 200), clip(pb[i], 200))
		}
	}
	return fmt.Sprintf("A has %d parts, B has %d parts", len(pa), len(pb))
}

func clip(s string, n int) string {
	if len(s) > n {
		return s[:n] + "..."
	}
	return s
}

// LevelOf returns the verification level claimed for a property.
func LevelOf(prop string) string {
	switch prop {
	case "C10":
		return "fault_enumeration"
	}
	return "exploration"
}

// ProbesFor lists the reach probes a property's check is expected to hit.
func ProbesFor(prop string) []string {
	switch prop {
	case "C01":
		return []string{"swap_remove", "table_grow", "batch_into_nonempty", "table_recycled"}
	case "C03", "C04":
		return []string{"table_recycled", "table_freed_cleanup", "children_moved"}
	case "C05":
		return []string{"cache_add", "cache_remove", "table_recycled", "table_freed_cleanup"}
	case "C06":
		return []string{"batch_into_nonempty"}
	case "C11":
		return []string{"column_reset_small", "column_reset_large", "table_grow", "table_recycled"}
	case "C15":
		return []string{"table_shrink", "table_freed_shrink"}
	}
	return nil
}

// RuleOf states how runs are generated and what makes one non-trivial and distinct.
func RuleOf(prop string) string {
	base := "one evaluation = one seeded run: configuration (capacities, component-ID offset, registration order, type subset, enabled fault kinds) and an op/fault history of 20-1500 ops drawn online from the per-run PRNG stream against the reference model, executed on a real ark world with per-op oracles; distinct = distinct abstract end-state hash (multiset of component-set/relation-shape/size-bucket, registered filters, observers, open queries) among non-trivial runs; non-trivial for this property = "
	switch prop {
	case "C12":
		return "one evaluation = one seeded history (as for the other properties, with relation-heavy op weights) executed 8 times in one process and once in each of 3 fresh processes (new map hash seeds); all result traces (handles, every query's visit order, Stats dumps, panic yes/no) must be byte-identical; non-trivial = more than 10 ops; distinct = distinct abstract end-state hash"
	case "C20":
		return "one evaluation = one seeded history restricted to 64 component IDs, including misuse calls (query access before Next / after exhaustion / after Close, Next after exhaustion, missing components), executed by the four binaries {}, ark_tiny, ark_debug, ark_tiny+ark_debug; result traces and panic/no-panic per call must be identical; non-trivial = more than 10 ops; distinct = distinct abstract end-state hash"
	case "C13":
		return "one evaluation = one session: a world built by seeded engine-A ops, then 1-4 rounds of 2-64 simulated goroutines (real goroutines parked on raw pipes; the seeded baton scheduler decides who runs at every lock hook and between API calls) running Query/Count/EntityAt/Next/Get/Close scripts over shared or private, cached or uncached filters with relation partitions, under the Go race detector; between rounds further ops create archetypes; non-trivial = at least one preemption inside a LockSafe critical section and one first use of a shared filter; distinct_nontrivial counts distinct abstract world states among those sessions, distinct_schedules the distinct schedule traces"
	case "C14":
		return base + "more than 3 entities exist; odd runs are twin runs (typed adapters vs ID-based API) compared op by op; api_calls lists every adapter method with its call count"
	case "C18":
		return base + "a registration-capacity scenario or a resource operation ran"
	case "C01":
		return base + "at least one swap-remove with swap, one table growth and one batch move happened (reach probes)"
	case "C02":
		return base + "more than 2 removals and creations exceed removals (IDs were recycled)"
	case "C03":
		return base + "more than 3 complete query checks and at least one relation table was freed or recycled"
	case "C04":
		return base + "children were moved on a target's death and a freed table was recycled for a new target"
	case "C05":
		return base + "a registered filter was compared with its unregistered twin and a table was removed from the cache or recycled"
	case "C06":
		return base + "batch operations affected more than 2 entities"
	case "C07":
		return base + "at least 3 queries were held open, one closed early, and a structural op was attempted while locked"
	case "C08":
		return base + "more than 5 event rows were checked and observers fired more than twice"
	case "C09":
		return base + "more than 2 callbacks inspected the world from inside"
	case "C10":
		return base + "more than 2 precondition violations were executed"
	case "C11":
		return base + "the released-memory oracle ran after a forced GC and an uninitialised add was checked for zero; for an engine-G trial: the collection was still running when the operation returned"
	case "C15":
		return base + "Shrink ran and shrank or freed at least one table"
	case "C16":
		return base + "at least one Reset was executed"
	case "C17":
		return base + "a dump/load round trip ran on a world with recycled IDs"
	case "C19":
		return base + "Stats was checked more than twice"
	}
	return base + "more than 3 entities were created"
}

// AssumptionsOf lists what a check trusts.
func AssumptionsOf(prop string) []string {
	a := []string{
		"the reference model in /verif/sim/sim/model.go transcribes the documented semantics correctly",
		"sampled, not exhaustive: a clean batch is evidence, not proof",
		"inputs outside the documented domain are not generated (DESIGN.md section 6, rule 5a)",
	}
	switch prop {
	case "C11":
		a = append(a, "engine A: runtime.GC() completes a full collection between operations; engine G (one worker in four): one seeded operation per trial overlaps the mark phase of a collection, the instant inside the phase is not controlled (timing of the collector), so a clean trial proves nothing and a failing one is a real use-after-free")
	case "C17":
		a = append(a, "the entity codec part is plain seeded input generation, not simulation")
	}
	return a
}
