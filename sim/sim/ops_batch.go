package sim

import (
	"fmt"
	"sort"
	"unsafe"

	"github.com/mlange-42/ark/ecs"
)

// Batch operations.

// allHandles lists all alive handles of the real world through a Filter0 query.
func (s *Sim) allHandles() []ecs.Entity {
	f := ecs.NewFilter0(s.W)
	q := f.Query()
	var out []ecs.Entity
	for q.Next() {
		out = append(out, q.Entity())
	}
	return out
}

// discover assigns handles to pending entities that no callback has reported,
// from the difference between the world's alive set and the model.
func (s *Sim) discover(t *txn) bool {
	missing := 0
	known := map[ecs.Entity]bool{}
	for _, e := range t.pend {
		if e.H.IsZero() {
			missing++
		} else {
			known[e.H] = true
		}
	}
	if missing == 0 {
		return true
	}
	var fresh []ecs.Entity
	for _, h := range s.allHandles() {
		if _, ok := s.M.ByHandle[h]; ok && s.M.Get(s.M.ByHandle[h]).Alive {
			continue
		}
		if known[h] {
			continue
		}
		fresh = append(fresh, h)
	}
	sort.Slice(fresh, func(i, j int) bool {
		if fresh[i].ID() != fresh[j].ID() {
			return fresh[i].ID() < fresh[j].ID()
		}
		return fresh[i].Gen() < fresh[j].Gen()
	})
	if len(fresh) != missing {
		s.violate("C06", "batch.selection", t.kind+"/created", true, "%s was to create %d more entities, the world shows %d new ones", t.kind, missing, len(fresh))
		return false
	}
	k := 0
	for _, e := range t.pend {
		if e.H.IsZero() {
			e.H = fresh[k]
			k++
		}
	}
	return true
}

// batchCb tracks invocations of a batch callback.
type batchCb struct {
	seen map[ecs.Entity]int
	// reject, if set, is run from the first callback: a structural operation through the very API
	// object the running batch was called on. It must panic on the locked world, without effect on
	// the world and on the running batch (C07).
	reject func(e ecs.Entity)
}

func (s *Sim) checkBatchPtrs(t *txn, name string, e ecs.Entity, ts []int, ptrs []unsafe.Pointer) {
	if len(ptrs) != len(ts) {
		bug("batch callback with %d pointers for %d types", len(ptrs), len(ts))
	}
	for i, p := range ptrs {
		want := s.W.Unsafe().Get(e, s.ids[ts[i]])
		s.C.Checks["batch.callback"]++
		if p != want {
			s.violate("C06", "batch.callback", name+"/pointer", false, "%s callback for %v: pointer %d (T%02d) = %x but Unsafe.Get = %x", name, e, i, ts[i], ptrOf(p), ptrOf(want))
			return
		}
	}
}

func (s *Sim) opNewEntities(op *Op) {
	n := op.N
	if n < 0 {
		n = -n
	}
	n = n%40 + 1
	t := s.newTxn(KNewEntities)
	t.expLock = true
	for i := 0; i < n; i++ {
		t.pend = append(t.pend, &Ent{Alive: true, Comps: map[int]uint64{}, Tgt: map[int]int{}})
		t.rows = append(t.rows, s.createRows(-(i+1), nil)...)
	}
	cb := &batchCb{seen: map[ecs.Entity]int{}}
	var fn func(ecs.Entity)
	if op.Fn != FnNil {
		fn = func(e ecs.Entity) {
			cb.seen[e]++
			s.view(t, e, false)
			if !s.W.IsLocked() {
				s.violate("C09", "cb.lock", "NewEntities/batchfn", false, "world not locked inside NewEntities callback")
			}
		}
	}
	s.count("World.NewEntities")
	if !s.structural(op, t, func() { s.W.NewEntities(n, fn) }) {
		return
	}
	if !s.discover(t) {
		return
	}
	if fn != nil {
		s.checkOnce(t, "NewEntities", cb, t.pend)
	}
	s.commit(t)
	s.tracef("%d NewEntities %d", s.OpIdx, n)
}

func (s *Sim) checkOnce(t *txn, name string, cb *batchCb, ents []*Ent) {
	s.C.Checks["batch.callback"]++
	for _, e := range ents {
		if cb.seen[e.H] != 1 {
			s.violate("C06", "batch.callback", name+"/once", false, "%s callback ran %d times for entity %v (label %d), expected once", name, cb.seen[e.H], e.H, e.Label)
			return
		}
	}
	if len(cb.seen) != len(ents) {
		s.violate("C06", "batch.callback", name+"/extra", false, "%s callback ran for %d distinct entities, expected %d", name, len(cb.seen), len(ents))
	}
}

func (s *Sim) opNewBatch(op *Op) {
	idx := op.Ad % len(MapTuples)
	cs := MapTuples[idx]
	n := op.N
	if n < 0 {
		n = -n
	}
	n = n%70 + 1
	tgt := s.targetsFor(op, cs)
	vals := s.vals(op, len(cs))
	if s.Flags.AsSingles || s.Flags.ForceUnsafe {
		// targets are resolved once, as the batch call does
		var ts []int
		for _, c := range cs {
			if l, ok := tgt[c]; ok {
				if l == 0 {
					ts = append(ts, -1)
				} else {
					ts = append(ts, sort.SearchInts(s.M.Live, l))
				}
			}
		}
		for k := 0; k < n; k++ {
			sub := Op{K: KNewEntity, P: PUnsafe, Cs: cs, Ts: ts, RS: RSID, Fn: op.Fn}
			sub.Vs = s.batchVals(op, vals, k)
			s.opNewEntity(&sub)
			if s.fatal {
				return
			}
		}
		return
	}
	m := s.mapper(idx)
	name := mapperName(cs, idx)
	t := s.newTxn(KNewBatch)
	t.expLock = true
	for i := 0; i < n; i++ {
		pe := &Ent{Alive: true, Comps: map[int]uint64{}, Tgt: map[int]int{}}
		for c, l := range tgt {
			pe.Tgt[c] = l
		}
		switch op.Fn {
		case FnValue:
			pe.Comps = normVals(cs, vals)
		default:
			pe.Comps = zeroVals(cs)
		}
		t.pend = append(t.pend, pe)
		t.rows = append(t.rows, s.createRows(-(i+1), cs)...)
	}
	rels := s.relations(cs, tgt, cs, op.RS)
	s.setSingleTargets(cs, tgt)
	cb := &batchCb{seen: map[ecs.Entity]int{}}
	ok := false
	switch op.Fn {
	case FnValue:
		s.count(name + ".NewBatch")
		ok = s.structural(op, t, func() { m.NewBatch(n, vals, rels) })
	case FnFunc:
		k := 0
		fn := func(e ecs.Entity, ptrs []unsafe.Pointer) {
			cb.seen[e]++
			pe, _ := s.view(t, e, false)
			s.checkBatchPtrs(t, name+".NewBatchFn", e, cs, ptrs)
			v := s.batchVals(op, vals, k)
			k++
			for i, p := range ptrs {
				U[cs[i]].Put(p, v[i])
			}
			if pe != nil {
				pe.Comps = normVals(cs, v)
			}
			if !s.W.IsLocked() {
				s.violate("C09", "cb.lock", "NewBatchFn/batchfn", false, "world not locked inside NewBatchFn callback")
			}
		}
		s.count(name + ".NewBatchFn")
		ok = s.structural(op, t, func() { m.NewBatchFn(n, fn, rels) })
	default:
		s.count(name + ".NewBatchFn(nil)")
		ok = s.structural(op, t, func() { m.NewBatchFn(n, nil, rels) })
	}
	if !ok {
		return
	}
	if !s.discover(t) {
		return
	}
	if op.Fn == FnFunc {
		s.checkOnce(t, name+".NewBatchFn", cb, t.pend)
	}
	s.commit(t)
	if s.fatal {
		return
	}
	if op.Fn == FnNil {
		for _, pe := range t.pend {
			s.checkZero(pe.H, cs, "NewBatchFn(nil)")
		}
	}
	s.tracef("%d NewBatch %d %v", s.OpIdx, n, cs)
}

// batchVals derives the values for the k-th entity of a batch callback.
func (s *Sim) batchVals(op *Op, vals []uint64, k int) []uint64 {
	if op.Fn != FnFunc {
		return vals
	}
	out := make([]uint64, len(vals))
	for i, v := range vals {
		out[i] = v + uint64(k+1)<<32
	}
	return out
}

// batchFilter returns the real Batch and the model selection for a batch op.
func (s *Sim) batchFilter(op *Op) (fi *FilterInst, f Filterer, rels []relPair, qrels []ecs.Relation, sel []int, ok bool) {
	if len(s.filters) == 0 {
		return nil, nil, nil, nil, nil, false
	}
	fi = s.filters[abs(op.F)%len(s.filters)]
	f = fi.A
	if op.W == 1 {
		f = fi.B
	}
	if !fi.Typed() {
		return nil, nil, nil, nil, nil, false
	}
	extra, er := s.queryRels(fi, op.QR, f)
	rels = append(append([]relPair{}, fi.Rels...), extra...)
	sel = s.M.Select(&fi.Spec, rels)
	return fi, f, rels, er, sel, true
}

func abs(x int) int {
	if x < 0 {
		return -x
	}
	return x
}

func (s *Sim) opBatch(op *Op) {
	fi, f, _, qrels, sel, ok := s.batchFilter(op)
	if !ok {
		s.skip(op)
		return
	}
	_ = fi
	if s.Flags.AsSingles || s.Flags.ForceUnsafe {
		s.batchAsSingles(op, sel)
		return
	}
	var add, rm []int
	switch op.K {
	case KAddBatch:
		if op.P == PEx {
			add = ExTuples[op.Ad%len(ExTuples)]
		} else {
			add = MapTuples[op.Ad%len(MapTuples)]
		}
	case KRemoveBatch:
		if op.P == PMap {
			rm = MapTuples[op.Ad%len(MapTuples)]
		} else {
			rm = uniqKeep(op.Rm)
		}
	case KExchangeBatch:
		add = ExTuples[op.Ad%len(ExTuples)]
		rm = uniqKeep(op.Rm)
	}
	if intersects(add, rm) {
		s.skip(op)
		return
	}
	// Normalise: the operation must be valid for every selected entity.
	for _, l := range sel {
		e := s.M.Get(l)
		if e.HasAny(add...) || !e.Has(rm...) {
			s.skip(op)
			return
		}
	}
	t := s.newTxn(op.K)
	t.expLock = true
	t.batch = sel
	vals := s.vals(op, len(add))
	tgt := s.targetsFor(op, add)
	cb := &batchCb{seen: map[ecs.Entity]int{}}
	selEnts := make([]*Ent, len(sel))
	for i, l := range sel {
		selEnts[i] = s.M.Get(l)
	}
	entFn := func(name string) func(ecs.Entity) {
		return func(e ecs.Entity) {
			cb.seen[e]++
			if l, ok := s.M.ByHandle[e]; !ok || !containsSorted(sel, l) {
				s.violate("C06", "batch.selection", name+"/callback", false, "%s callback ran for %v which did not match the batch filter when the operation was called", name, e)
			}
			if !s.W.IsLocked() {
				s.violate("C09", "cb.lock", name+"/batchfn", false, "world not locked inside %s callback", name)
			}
			if len(cb.seen) == 1 && cb.seen[e] == 1 && cb.reject != nil && !s.fatal {
				cb.reject(e)
			}
			// a query run from inside the callback (about the only thing a callback may do on the
			// locked world) yields alive entities only, each once; the entity of the callback is one of them
			if n := len(cb.seen); (n == 2 || n == 5) && s.lockDepth < 62 {
				s.C.Checks["query.in_batch_callback"]++
				q := ecs.NewFilter0(s.W).Query()
				seen, self := map[ecs.Entity]bool{}, 0
				for q.Next() {
					x := q.Entity()
					if !s.W.Alive(x) || seen[x] {
						s.violate("C03", "query.exact", "in_batch_callback/"+name, false, "a query run from inside the %s callback for %v yields %v (alive=%v, seen before=%v)", name, e, x, s.W.Alive(x), seen[x])
						q.Close()
						break
					}
					seen[x] = true
					if x == e {
						self++
					}
				}
				if self != 1 && !s.fatal {
					s.violate("C03", "query.exact", "in_batch_callback/"+name+"/self", false, "a query run from inside the %s callback for %v yields that entity %d times", name, e, self)
				}
			}
		}
	}
	okCall := false
	uninit := false
	switch op.K {
	case KRemoveEntities:
		t.rel = true
		for _, e := range selEnts {
			p := e.Clone()
			p.Alive = false
			t.post[e.Label] = p
			ts := e.Types()
			t.rows = append(t.rows, evRow{Ev: EvRemove, Key: e.Label, Basis: ts, Before: true})
			if rel := relTypesOf(ts); len(rel) > 0 {
				t.rows = append(t.rows, evRow{Ev: EvRemoveRel, Key: e.Label, Affected: rel, Basis: ts, Before: true})
			}
		}
		var fn func(ecs.Entity)
		if op.Fn != FnNil {
			fn = entFn("RemoveEntities")
		}
		b := f.Batch(qrels)
		s.count("World.RemoveEntities")
		okCall = s.structural(op, t, func() { s.W.RemoveEntities(b, fn) })
		if okCall && fn != nil {
			s.checkOnce(t, "RemoveEntities", cb, selEnts)
		}
	case KSetRelBatch:
		t.rel = true
		var tuple, cs []int
		if op.P == PMap {
			tuple = MapTuples[op.Ad%len(MapTuples)]
			cs = relTypesOf(tuple)
		}
		if len(cs) == 0 {
			s.skip(op)
			return
		}
		for _, e := range selEnts {
			if !e.Has(cs...) {
				s.skip(op)
				return
			}
		}
		tg := s.targetsFor(op, cs)
		var changedEnts []*Ent
		for _, e := range selEnts {
			var changed []int
			for _, c := range cs {
				if tg[c] != e.Tgt[c] {
					changed = append(changed, c)
				}
			}
			p := e.Clone()
			for c, l := range tg {
				p.Tgt[c] = l
			}
			t.post[e.Label] = p
			if len(changed) > 0 {
				changedEnts = append(changedEnts, e)
				ts := e.Types()
				t.rows = append(t.rows,
					evRow{Ev: EvRemoveRel, Key: e.Label, Affected: changed, Basis: ts, Before: true},
					evRow{Ev: EvAddRel, Key: e.Label, Affected: changed, Basis: ts})
			}
		}
		idx := op.Ad % len(MapTuples)
		m := s.mapper(idx)
		rels := s.relations(tuple, tg, cs, op.RS)
		s.setSingleTargets(cs, tg)
		var fn func(ecs.Entity)
		if op.Fn != FnNil {
			fn = entFn("SetRelationsBatch")
			// the same mapper, from inside its own batch callback, with other targets
			tg2 := map[int]int{}
			for k, c := range cs {
				if _, ok := tg[c]; !ok {
					continue
				}
				for j := 0; j < 4; j++ {
					if x := s.M.PickLive(op.F + op.Ad + len(sel) + k + j); x != nil && x.Label != tg[c] {
						tg2[c] = x.Label
						break
					}
				}
			}
			if len(tg2) == len(tg) && len(tg) > 0 && (op.F+len(sel))%2 == 0 {
				rels2 := append([]ecs.Relation{}, s.relations(tuple, tg2, cs, op.RS)...)
				cb.reject = func(e ecs.Entity) {
					s.C.Checks["lock.blocks"]++
					s.C.Faults["rejected_call_on_the_running_mapper"]++
					if s.rejTargets == nil {
						s.rejTargets = map[ecs.Entity]int{}
					}
					for _, l := range tg {
						if l != 0 {
							s.rejTargets[s.handleOf(l)] = s.M.Epoch
						}
					}
					if p, _ := s.call(func() { m.SetRelations(e, rels2) }); !p {
						s.violate("C07", "lock.blocks", "callback_same_mapper/SetRelationsBatch", true, "SetRelations through the mapper of the running SetRelationsBatch succeeded inside its callback although the world must be locked")
					}
				}
			}
		}
		b := f.Batch(qrels)
		s.count(mapperName(tuple, idx) + ".SetRelationsBatch")
		okCall = s.structural(op, t, func() { m.SetRelationsBatch(b, fn, rels) })
		// The callback of SetRelationsBatch runs only for entities whose targets change,
		// exactly once for each of them.
		if okCall && fn != nil {
			s.checkOnce(t, "SetRelationsBatch", cb, changedEnts)
		}
	default:
		for _, e := range selEnts {
			p := e.Clone()
			old := e.Types()
			for _, c := range rm {
				delete(p.Comps, c)
				delete(p.Tgt, c)
			}
			for c, l := range tgt {
				p.Tgt[c] = l
			}
			if op.Fn == FnValue {
				for k, v := range normVals(add, vals) {
					p.Comps[k] = v
				}
			} else {
				for k, v := range zeroVals(add) {
					p.Comps[k] = v
				}
			}
			t.post[e.Label] = p
			if len(rm) > 0 {
				t.rows = append(t.rows, s.removeRows(e.Label, old, rm)...)
			}
			if len(add) > 0 {
				t.rows = append(t.rows, s.addRows(e.Label, old, add)...)
			}
		}
		rels := s.relations(add, tgt, add, op.RS)
		s.setSingleTargets(add, tgt)
		k := 0
		name := ""
		ptrFn := func(e ecs.Entity, ptrs []unsafe.Pointer) {
			cb.seen[e]++
			l, ok := s.M.ByHandle[e]
			if !ok || !containsSorted(sel, l) {
				s.violate("C06", "batch.selection", name+"/callback", false, "%s callback ran for %v which did not match the batch filter when the operation was called", name, e)
				return
			}
			s.checkBatchPtrs(t, name, e, add, ptrs)
			// the value depends on the entity (label), not on the callback order
			v := s.batchVals(op, vals, l)
			k++
			for i, p := range ptrs {
				U[add[i]].Put(p, v[i])
			}
			for kk, vv := range normVals(add, v) {
				t.post[l].Comps[kk] = vv
			}
			if !s.W.IsLocked() {
				s.violate("C09", "cb.lock", name+"/batchfn", false, "world not locked inside %s callback", name)
			}
		}
		b := f.Batch(qrels)
		switch op.K {
		case KAddBatch:
			var addB func(v []uint64)
			var addFn func(fn PtrFn)
			if op.P == PEx {
				x := s.exchanger(op.Ad%len(ExTuples), nil)
				name = fmt.Sprintf("Exchange%d.AddBatch", len(add))
				addB = func(v []uint64) { x.AddBatch(b, v, rels) }
				addFn = func(fn PtrFn) { x.AddBatchFn(b, fn, rels) }
			} else {
				idx := op.Ad % len(MapTuples)
				m := s.mapper(idx)
				name = mapperName(add, idx) + ".AddBatch"
				addB = func(v []uint64) { m.AddBatch(b, v, rels) }
				addFn = func(fn PtrFn) { m.AddBatchFn(b, fn, rels) }
			}
			switch op.Fn {
			case FnValue:
				s.count(name)
				okCall = s.structural(op, t, func() { addB(vals) })
			case FnFunc:
				name += "Fn"
				s.count(name)
				okCall = s.structural(op, t, func() { addFn(ptrFn) })
				if okCall {
					s.checkOnce(t, name, cb, selEnts)
				}
			default:
				uninit = true
				s.count(name + "Fn(nil)")
				okCall = s.structural(op, t, func() { addFn(nil) })
			}
		case KRemoveBatch:
			var fn func(ecs.Entity)
			if op.Fn != FnNil {
				fn = entFn("RemoveBatch")
			}
			if op.P == PMap {
				idx := op.Ad % len(MapTuples)
				m := s.mapper(idx)
				s.count(mapperName(rm, idx) + ".RemoveBatch")
				okCall = s.structural(op, t, func() { m.RemoveBatch(b, fn) })
			} else {
				x := s.exchanger(op.Ad%len(ExTuples), rm)
				s.count(fmt.Sprintf("Exchange%d.RemoveBatch", len(ExTuples[op.Ad%len(ExTuples)])))
				okCall = s.structural(op, t, func() { x.RemoveBatch(b, fn) })
			}
			if okCall && fn != nil {
				s.checkOnce(t, "RemoveBatch", cb, selEnts)
			}
		case KExchangeBatch:
			x := s.exchanger(op.Ad%len(ExTuples), rm)
			name = fmt.Sprintf("Exchange%d.ExchangeBatch", len(add))
			switch op.Fn {
			case FnValue:
				s.count(name)
				okCall = s.structural(op, t, func() { x.ExchangeBatch(b, vals, rels) })
			case FnFunc:
				name += "Fn"
				s.count(name)
				okCall = s.structural(op, t, func() { x.ExchangeBatchFn(b, ptrFn, rels) })
				if okCall {
					s.checkOnce(t, name, cb, selEnts)
				}
			default:
				uninit = true
				s.count(name + "Fn(nil)")
				okCall = s.structural(op, t, func() { x.ExchangeBatchFn(b, nil, rels) })
			}
		}
	}
	if !okCall {
		return
	}
	s.commit(t)
	if s.fatal {
		return
	}
	if uninit {
		for _, e := range selEnts {
			s.checkZero(e.H, add, op.K+"Fn(nil)")
		}
	}
	s.C.Faults["batch_entities"] += len(sel)
	s.tracef("%d %s sel=%d", s.OpIdx, op.K, len(sel))
}

func containsSorted(a []int, x int) bool {
	i := sort.SearchInts(a, x)
	return i < len(a) && a[i] == x
}

// batchAsSingles applies the single-entity counterpart of a batch op to each selected entity.
func (s *Sim) batchAsSingles(op *Op, sel []int) {
	var add, rm []int
	switch op.K {
	case KAddBatch:
		if op.P == PEx {
			add = ExTuples[op.Ad%len(ExTuples)]
		} else {
			add = MapTuples[op.Ad%len(MapTuples)]
		}
	case KRemoveBatch:
		if op.P == PMap {
			rm = MapTuples[op.Ad%len(MapTuples)]
		} else {
			rm = uniqKeep(op.Rm)
		}
	case KExchangeBatch:
		add = ExTuples[op.Ad%len(ExTuples)]
		rm = uniqKeep(op.Rm)
	}
	if intersects(add, rm) {
		s.skip(op)
		return
	}
	for _, l := range sel {
		e := s.M.Get(l)
		if e.HasAny(add...) || !e.Has(rm...) {
			s.skip(op)
			return
		}
	}
	var relCs []int
	if op.K == KSetRelBatch {
		if op.P == PMap {
			relCs = relTypesOf(MapTuples[op.Ad%len(MapTuples)])
		}
		if len(relCs) == 0 {
			s.skip(op)
			return
		}
		for _, l := range sel {
			if !s.M.Get(l).Has(relCs...) {
				s.skip(op)
				return
			}
		}
	}
	// Targets are resolved once, before any entity changes (as the batch call does).
	tgtAdd := s.targetsFor(op, add)
	tgtRel := s.targetsFor(op, relCs)
	vals := s.vals(op, len(add))
	handles := make([]ecs.Entity, len(sel))
	for i, l := range sel {
		handles[i] = s.M.Get(l).H
	}
	u := s.W.Unsafe()
	for k, l := range sel {
		e := s.M.Get(l)
		if !e.Alive {
			continue
		}
		h := handles[k]
		t := s.newTxn(op.K + "/single")
		p := e.Clone()
		t.post[l] = p
		var fn func()
		switch op.K {
		case KRemoveEntities:
			p.Alive = false
			fn = func() { s.W.RemoveEntity(h) }
		case KSetRelBatch:
			changed := false
			for c, tl := range tgtRel {
				if p.Tgt[c] != tl {
					changed = true
				}
				p.Tgt[c] = tl
			}
			if !changed {
				continue
			}
			rels := s.relationsLive(tgtRel, relCs)
			if rels == nil {
				continue
			}
			fn = func() { u.SetRelations(h, rels...) }
		default:
			for _, c := range rm {
				delete(p.Comps, c)
				delete(p.Tgt, c)
			}
			v := vals
			if op.Fn == FnFunc {
				v = s.batchVals(op, vals, l)
			}
			for c, tl := range tgtAdd {
				p.Tgt[c] = tl
			}
			for kk, vv := range normVals(add, v) {
				if op.Fn == FnNil {
					vv = 0
				}
				p.Comps[kk] = vv
			}
			rels := s.relationsLive(tgtAdd, add)
			fn = func() {
				u.Exchange(h, s.idsOf(add), s.idsOf(rm), rels...)
				if op.Fn != FnNil {
					s.writeVals(h, add, v)
				}
			}
		}
		t.rows = nil
		s.cur = t
		pn, val := s.call(fn)
		s.cur = nil
		if pn {
			s.violate("C06", "batch.equiv", op.K+"/single", true, "single-entity counterpart of %s panicked: %v", op.K, val)
			return
		}
		// commit without event checks (twin B compares states only)
		t.fired = nil
		s.commitQuiet(t)
	}
}

// relationsLive builds RelID relations; targets that died meanwhile become... they cannot:
// a target removed by an earlier single op of the same batch is replaced by the zero entity
// only by ark itself, so such a batch is not comparable; callers skip it.
func (s *Sim) relationsLive(tgt map[int]int, order []int) []ecs.Relation {
	out := []ecs.Relation{}
	for _, c := range order {
		l, ok := tgt[c]
		if !ok {
			continue
		}
		if l != 0 && !s.M.Get(l).Alive {
			out = append(out, ecs.RelID(s.ids[c], ecs.Entity{}))
			continue
		}
		out = append(out, ecs.RelID(s.ids[c], s.handleOf(l)))
	}
	return out
}

func (s *Sim) commitQuiet(t *txn) {
	for l, p := range t.post {
		if p.Alive {
			e := s.M.Get(l)
			e.Comps = p.Comps
			e.Tgt = p.Tgt
			for c, tl := range e.Tgt {
				if tl != 0 && !s.M.Get(tl).Alive {
					e.Tgt[c] = 0
				}
			}
		}
	}
	for l, p := range t.post {
		if !p.Alive {
			s.M.Remove(l)
		}
	}
	for _, o := range s.observers {
		o.touched = false
	}
}

// opBigBatch: one batch removal of several hundred relation targets together with their
// children (the pooled slices of ark hold 256 items; the histories of the simulated world stay
// below that). A world of its own; the oracle is the plain meaning of RemoveEntities.
func (s *Sim) opBigBatch(op *Op) {
	nPar := []int{120, 255, 256, 257, 300, 520}[abs(op.N)%6]
	perPar := 1 + abs(op.E)%2
	w := ecs.NewWorld([]int{1, 16, 1024}[abs(op.N/6)%3])
	mp := ecs.NewMap1[T02](w)
	mc := ecs.NewMap2[T03, T12](w)
	var parents, children []ecs.Entity
	grand := map[ecs.Entity]ecs.Entity{} // grandchild -> its target (a child, which survives the removal of the parents)
	childrenFirst := op.E%3 == 0
	for i := 0; i < nPar; i++ {
		parents = append(parents, mp.NewEntity(&T02{V: uint64(i)}))
	}
	for i, p := range parents {
		for k := 0; k < perPar; k++ {
			children = append(children, mc.NewEntity(&T03{}, &T12{}, ecs.RelIdx(1, p)))
		}
		if childrenFirst && i%2 == 0 {
			// a grandchild: a child that is a target itself
			gt := children[len(children)-1]
			gc := mc.NewEntity(&T03{}, &T12{}, ecs.RelIdx(1, gt))
			children = append(children, gc)
			grand[gc] = gt
		}
	}
	keep := mp.NewEntity(&T02{V: 77}) // not selected when the batch asks for T03 or T12 only
	calls := map[ecs.Entity]int{}
	var fn func(ecs.Entity)
	if op.N%2 == 0 {
		fn = func(e ecs.Entity) { calls[e]++ }
	}
	s.C.Checks["batch.big_targets"]++
	all := op.E%4 != 0
	p, val := s.call(func() {
		if all {
			w.RemoveEntities(ecs.NewFilter0(w).Batch(), fn)
		} else {
			// the parents only: their children are detached, not removed
			w.RemoveEntities(ecs.NewFilter1[T02](w).Batch(), fn)
		}
	})
	if p {
		s.violate("C04", "op.no_failure", "BigBatch", false, "RemoveEntities over %d relation targets and their children panicked: %v", nPar, val)
		return
	}
	want := 0
	if !all {
		want = len(children)
	}
	bad := func(format string, args ...any) {
		s.violate("C06", "batch.equiv", "BigBatch", false, "RemoveEntities over %d relation targets (%d children, whole world=%v): "+format, append([]any{nPar, len(children), all}, args...)...)
	}
	if got := w.Stats().Entities.Used; got != want {
		s.violate("C02", "pool.count", "BigBatch", false, "after RemoveEntities over %d relation targets (%d children, whole world=%v) the world reports %d entities, expected %d", nPar, len(children), all, got, want)
		return
	}
	for _, e := range parents {
		if w.Alive(e) {
			s.violate("C02", "pool.alive_exact", "BigBatch", false, "a removed relation target is still alive after the batch removal of %d targets", nPar)
			return
		}
	}
	if w.Alive(keep) {
		bad("the one entity created after the children survived although it matches the batch")
		return
	}
	for _, e := range children {
		if w.Alive(e) == all {
			bad("child %v alive=%v", e, w.Alive(e))
			return
		}
		if !all {
			if tg := mc.GetRelation(e, 1); tg != grand[e] {
				s.violate("C04", "rel.target", "BigBatch", false, "after the batch removal of %d targets a child has target %v, expected %v", nPar, tg, grand[e])
				return
			}
		}
	}
	if fn != nil {
		exp := len(parents) + 1
		if all {
			exp += len(children)
		}
		if len(calls) != exp {
			s.violate("C06", "batch.callback", "BigBatch/once", false, "RemoveEntities callback ran for %d distinct entities, expected %d", len(calls), exp)
			return
		}
		for e, n := range calls {
			if n != 1 {
				s.violate("C06", "batch.callback", "BigBatch/once", false, "RemoveEntities callback ran %d times for %v", n, e)
				return
			}
		}
	}
	q := ecs.NewFilter0(w).Query()
	n := q.Count()
	q.Close()
	if n != want {
		bad("a query over everything counts %d entities afterwards, expected %d", n, want)
	}
}
