package sim

import (
	"github.com/mlange-42/ark/ecs"
)

// Helpers used by engine B (package parsim).

// ParF is a filter instance for engine B.
type ParF struct {
	Spec FilterSpec
	F    Filterer
	Rels []relPair
}

// NewParFilter builds a filter from a spec on this world.
func (s *Sim) NewParFilter(spec FilterSpec, cached bool) *ParF {
	spec = normSpec(spec)
	var rels []relPair
	for _, r := range spec.Rels {
		rels = append(rels, relPair{T: r.T, Label: s.target(r.Tgt)})
	}
	f := s.buildFilter(&spec, rels)
	if cached && f.CanRegister() {
		f.Register()
	}
	pf := &ParF{Spec: spec, F: f, Rels: rels}
	return pf
}

// UseForBatch calls Filter.Batch with a per-call relation target once, as a batch operation would.
func (s *Sim) UseForBatch(p *ParF) {
	if !p.F.CanRegister() {
		return
	}
	qrels, _, _ := s.ParQuery(p, 0)
	s.call(func() { _ = p.F.Batch(qrels) })
}

// PartitionType returns the relation type usable for per-query partitioning of the filter (-1: none).
func (p *ParF) PartitionType() int {
	req := p.Spec.Required()
	for _, t := range req {
		if !U[t].IsRel {
			continue
		}
		fixed := false
		for _, r := range p.Rels {
			if r.T == t {
				fixed = true
			}
		}
		if !fixed {
			return t
		}
	}
	return -1
}

// ParQuery returns the relations for a query on partition target index tgt (-2 = none)
// and the handles the query is expected to visit.
func (s *Sim) ParQuery(p *ParF, tgt int) ([]ecs.Relation, []ecs.Entity, int) {
	rels := append([]relPair{}, p.Rels...)
	var qrels []ecs.Relation
	label := -2
	if t := p.PartitionType(); t >= 0 && tgt != -2 {
		label = s.target(tgt)
		rels = append(rels, relPair{T: t, Label: label})
		style := RSIdx
		if !p.F.CanRegister() {
			style = RSID
			if (tgt+label)%2 == 0 {
				style = RSType // ecs.Rel[T]: resolved to a component ID on use
			}
		}
		qrels = s.relations(p.Spec.Required(), map[int]int{t: label}, []int{t}, style)
	}
	var exp []ecs.Entity
	for _, l := range s.M.Select(&p.Spec, rels) {
		exp = append(exp, s.M.Get(l).H)
	}
	return qrels, exp, label
}

// ParDeadQuery returns relation arguments that name a removed entity as target of the filter's
// partition component (nil if the filter is not typed, has no such component, or nothing was removed yet).
func (s *Sim) ParDeadQuery(p *ParF, k int) []ecs.Relation {
	t, d := p.PartitionType(), s.M.PickDead(k)
	if t < 0 || d == nil || !p.F.CanRegister() {
		return nil
	}
	return append([]ecs.Relation{}, s.relations(p.Spec.Required(), map[int]int{t: d.Label}, []int{t}, RSIdx)...)
}

// CloseAllQueries finishes all queries held open by engine-A ops.
func (s *Sim) CloseAllQueries() {
	for _, q := range s.queries {
		if !q.Done {
			q.Q.Close()
			q.Done = true
			s.lockDepth--
		}
	}
}

// WritableType returns a trivial 8-byte generic component of the filter that engine B may write (-1: none).
func (p *ParF) WritableType() (int, int) {
	for i, t := range p.Spec.Ts {
		if t == 2 || t == 19 {
			return t, i
		}
	}
	return -1, -1
}

// NoteWrite records in the model a value written by engine B through a query pointer.
func (s *Sim) NoteWrite(h ecs.Entity, t int, v uint64) {
	if l, ok := s.M.ByHandle[h]; ok {
		if _, has := s.M.Get(l).Comps[t]; has {
			s.M.Get(l).Comps[t] = Norm(t, v)
		}
	}
}

// LockDepth returns the number of world locks the model expects.
func (s *Sim) LockDepth() int { return s.lockDepth }

// Fatal reports whether the engine-A part of the session failed.
func (s *Sim) Fatal() bool { return s.fatal }
