package sim

import (
	"fmt"
	"sort"
	"unsafe"

	"github.com/mlange-42/ark/ecs"
)

// Transaction machinery: every state-changing operation is planned against
// the model (post-states, expected event rows), executed on the real world
// with the simulator acting as every callback, and then committed.

func (s *Sim) newTxn(kind string) *txn {
	return &txn{kind: kind, post: map[int]*Ent{}, callerLocked: s.locked()}
}

// structural executes a structure-changing call. If the world is expected to
// be locked, the call must panic (C07 lock.blocks) and nothing is committed.
func (s *Sim) structural(op *Op, t *txn, fn func()) bool {
	if s.locked() {
		s.C.Faults["misuse_locked"]++
		s.C.Checks["lock.blocks"]++
		// "without effect" includes the structure of the world: no archetype, table or memory appears
		fp := !s.Flags.DropStats
		var before [4]int
		if fp {
			before = s.structFP()
		}
		p, _ := s.call(fn)
		s.tracef("%d %s locked panic=%v", s.OpIdx, op.K, p)
		if !p {
			s.violate("C07", "lock.blocks", op.K, true, "%s succeeded on a world locked by %d open queries", op.K, s.lockDepth)
		} else if fp {
			if after := s.structFP(); after != before {
				s.violate("C07", "lock.blocks", op.K+"/structure", false, "%s was rejected on the locked world, but not without effect: archetypes/tables/memory/component types were %v before and are %v after", op.K, before, after)
			}
		}
		return false
	}
	s.cur = t
	p, val := s.call(fn)
	s.cur = nil
	if p {
		s.tracef("%d %s panic", s.OpIdx, op.K)
		prop, oracle := "C01", "op.no_failure"
		if t.rel {
			prop = "C04"
		}
		for _, o := range s.observers {
			if o.touched {
				// an observer was (un)registered from inside a callback of this operation
				prop, oracle = "C08", "obs.dispatch"
			}
		}
		s.violate(prop, oracle, op.K, true, "valid %s panicked: %v", op.K, val)
		return false
	}
	return true
}

// structFP summarises the structure of the world as World.Stats reports it:
// archetypes, tables (active and free), reserved memory, component types.
func (s *Sim) structFP() [4]int {
	st := s.W.Stats()
	fp := [4]int{len(st.Archetypes), 0, st.Memory, len(st.ComponentTypes)}
	for i := range st.Archetypes {
		fp[1] += len(st.Archetypes[i].Tables) + st.Archetypes[i].FreeTables
	}
	return fp
}

// commit applies the transaction to the model and checks the events it fired.
func (s *Sim) commit(t *txn) {
	for _, e := range t.pend {
		if e.H.IsZero() {
			bug("pending entity without handle in %s", t.kind)
		}
		if l, dup := s.M.ByHandle[e.H]; dup {
			s.violate("C02", "pool.unique", t.kind, true, "creation returned handle %v that was already issued in this epoch (label %d)", e.H, l)
			return
		}
		if !s.W.Alive(e.H) || e.H.IsZero() {
			s.violate("C02", "pool.unique", t.kind+"/alive", true, "new handle %v not alive or zero", e.H)
			return
		}
		n := s.M.Create(e.H, e.Comps, e.Tgt)
		e.Label = n.Label
		s.tracef("%d new %d/%d", s.OpIdx, e.H.ID(), e.H.Gen())
	}
	labels := make([]int, 0, len(t.post))
	for l := range t.post {
		labels = append(labels, l)
	}
	sort.Ints(labels)
	for _, l := range labels {
		p := t.post[l]
		if !p.Alive {
			continue
		}
		e := s.M.Get(l)
		e.Comps = p.Comps
		e.Tgt = p.Tgt
	}
	for _, l := range labels {
		if !t.post[l].Alive {
			s.M.Remove(l)
		}
	}
	s.checkEvents(t)
}

// obsMatches is the reference predicate for observers (DESIGN.md appendix A).
func obsMatches(o *ObsInst, r *evRow) bool {
	sp := &o.Spec
	if sp.Ev != r.Ev {
		return false
	}
	entityEvent := sp.Ev == EvCreate || sp.Ev == EvRemove
	if entityEvent {
		need := append(append([]int{}, o.ForAll...), sp.With...)
		if !subset(need, r.Basis) {
			return false
		}
		if sp.Excl {
			return len(uniq(need)) == len(r.Basis)
		}
		return !intersects(sp.Without, r.Basis)
	}
	if !subset(o.ForAll, r.Affected) {
		return false
	}
	if !subset(sp.With, r.Basis) {
		return false
	}
	if sp.Excl {
		return len(uniq(sp.With)) == len(r.Basis)
	}
	return !intersects(sp.Without, r.Basis)
}

func (s *Sim) rowLabel(t *txn, r *evRow) int {
	if r.Key < 0 {
		return t.pend[-r.Key-1].Label
	}
	return r.Key
}

func (s *Sim) checkEvents(t *txn) {
	if len(s.observers) == 0 {
		return
	}
	type key struct{ obs, label, ev int }
	exp := map[key]int{}
	for i := range t.rows {
		r := &t.rows[i]
		for oi, o := range s.observers {
			if !o.Registered && !o.touched {
				continue
			}
			if o.touched {
				continue
			}
			if obsMatches(o, r) {
				exp[key{oi, s.rowLabel(t, r), r.Ev}]++
			}
		}
	}
	act := map[key]int{}
	for _, f := range t.fired {
		if s.observers[f.Obs].touched {
			continue
		}
		act[key{f.Obs, s.labelOf(f.H), f.Ev}]++
	}
	s.C.Checks["obs.exact"] += len(t.rows)
	keys := map[key]bool{}
	for k := range exp {
		keys[k] = true
	}
	for k := range act {
		keys[k] = true
	}
	var ks []key
	for k := range keys {
		ks = append(ks, k)
	}
	sort.Slice(ks, func(i, j int) bool {
		if ks[i].obs != ks[j].obs {
			return ks[i].obs < ks[j].obs
		}
		if ks[i].label != ks[j].label {
			return ks[i].label < ks[j].label
		}
		return ks[i].ev < ks[j].ev
	})
	for _, k := range ks {
		if exp[k] != act[k] {
			o := s.observers[k.obs]
			what := "missing"
			if act[k] > exp[k] {
				what = "spurious"
			}
			s.violate("C08", "obs.exact", fmt.Sprintf("%s/%s/%s", t.kind, EvName(k.ev), what), false,
				"observer %d (%s for=%v with=%v without=%v excl=%v) fired %d times for entity label %d in %s, expected %d; rows=%s",
				k.obs, EvName(o.Spec.Ev), o.ForAll, o.Spec.With, o.Spec.Without, o.Spec.Excl, act[k], k.label, t.kind, exp[k], s.fmtRows(t))
			break
		}
	}
	for _, o := range s.observers {
		o.touched = false
	}
}

func (s *Sim) fmtRows(t *txn) string {
	out := ""
	for i := range t.rows {
		r := &t.rows[i]
		out += fmt.Sprintf("{%s key=%d aff=%v basis=%v}", EvName(r.Ev), r.Key, r.Affected, r.Basis)
	}
	return out
}

// view returns the expected state of the entity with handle h as seen from a
// callback: the post state for "after" rows, the model state for "before".
func (s *Sim) view(t *txn, h ecs.Entity, before bool) (*Ent, int) {
	if l, ok := s.M.ByHandle[h]; ok {
		if !before {
			if p, ok := t.post[l]; ok {
				return p, l
			}
		}
		return s.M.Get(l), l
	}
	for i, e := range t.pend {
		if e.H == h {
			return e, -(i + 1)
		}
	}
	for i, e := range t.pend {
		if e.H.IsZero() {
			e.H = h
			return e, -(i + 1)
		}
	}
	return nil, 0
}

// onEvent is the simulator acting as an observer callback.
func (s *Sim) onEvent(oi int, h ecs.Entity, ptrs []unsafe.Pointer) {
	o := s.observers[oi]
	o.Calls++
	t := s.cur
	if o.Epoch != s.M.Epoch {
		s.violate("C16", "reset.silent", EvName(o.Spec.Ev), false, "observer %d (%s) registered before Reset fired afterwards", oi, EvName(o.Spec.Ev))
	}
	if t == nil {
		s.violate("C08", "obs.exact", "outside_op/"+EvName(o.Spec.Ev), false, "observer %d fired outside any event-emitting operation", oi)
		return
	}
	t.fired = append(t.fired, firing{Obs: oi, H: h, Ev: o.Spec.Ev})
	if s.Flags.Observe {
		s.firedRaw = append(s.firedRaw, firing{Obs: oi, H: h, Ev: o.Spec.Ev})
	}
	s.C.Faults["cb_invocations"]++
	if t.depth > 0 {
		s.C.Faults["cb_nested_invocations"]++
	}

	// Find the row this callback belongs to.
	var row *evRow
	if h.IsZero() {
		for i := range t.rows {
			if t.rows[i].Ev == o.Spec.Ev && t.rows[i].Key == 0 {
				row = &t.rows[i]
			}
		}
		if row == nil {
			s.violate("C09", "cb.entity", t.kind, false, "observer %d called with the zero entity in %s", oi, t.kind)
		}
		return
	}
	before := o.Spec.Ev == EvRemove || o.Spec.Ev == EvRemoveComps || o.Spec.Ev == EvRemoveRel
	if t.depth > 0 && t.forceBefore {
		before = true // raised from inside a removal callback: nothing has changed yet
	}
	ent, key := s.view(t, h, before)
	if ent == nil {
		s.violate("C09", "cb.entity", t.kind+"/"+EvName(o.Spec.Ev), false, "observer %d (%s) called with handle %v that the operation %s does not affect", oi, EvName(o.Spec.Ev), h, t.kind)
		return
	}
	for i := range t.rows {
		if t.rows[i].Ev == o.Spec.Ev && t.rows[i].Key == key {
			row = &t.rows[i]
		}
	}
	if row == nil {
		s.violate("C09", "cb.entity", t.kind+"/"+EvName(o.Spec.Ev), false, "observer %d (%s) called for entity %d which %s does not affect with that event", oi, EvName(o.Spec.Ev), key, t.kind)
		return
	}
	s.C.Checks["cb.inspect"]++
	if !s.W.Alive(h) {
		s.violate("C09", "cb.alive", t.kind+"/"+EvName(o.Spec.Ev), false, "entity %v not alive inside %s callback of %s", h, EvName(o.Spec.Ev), t.kind)
		return
	}
	// cb.lock
	expLocked := before || t.expLock || t.callerLocked
	if got := s.W.IsLocked(); got != expLocked {
		s.violate("C09", "cb.lock", t.kind+"/"+EvName(o.Spec.Ev), false, "IsLocked=%v inside %s callback of %s, expected %v", got, EvName(o.Spec.Ev), t.kind, expLocked)
		if expLocked {
			// C07: during every removal and batch callback structural operations must panic
			s.C.Checks["lock.blocks"]++
			s.violate("C07", "lock.blocks", "callback_unlocked/"+t.kind+"/"+EvName(o.Spec.Ev), false, "the world is not locked inside the %s callback of %s: structural operations would succeed", EvName(o.Spec.Ev), t.kind)
		}
	}
	// cb.timing: the entity's components as documented for this instant.
	if msg := s.compareEntity(ent, h); msg != "" {
		s.violate("C09", "cb.timing", t.kind+"/"+EvName(o.Spec.Ev), false, "inside %s callback of %s (before=%v): %s", EvName(o.Spec.Ev), t.kind, before, msg)
	}
	// typed observer pointers (C14 api.pointers)
	if len(ptrs) > 0 {
		ts := o.O.Types()
		for i, p := range ptrs {
			want := s.W.Unsafe().Get(h, s.ids[ts[i]])
			s.C.Checks["api.pointers"]++
			if want != p {
				s.violate("C14", "api.pointers", fmt.Sprintf("Observer%d/%s", len(ts), EvName(o.Spec.Ev)), false, "Observer%d callback pointer %d (type T%02d) = %x, Unsafe.Get = %x", len(ts), i, ts[i], ptrOf(p), ptrOf(want))
			}
		}
	}
	// cb.batch_order
	if len(t.batch) > 1 {
		n := 0
		for _, l := range t.batch {
			if n >= 6 {
				break
			}
			n++
			be := s.M.Get(l)
			var exp *Ent = be
			if !before {
				if p, ok := t.post[l]; ok {
					exp = p
				}
			}
			if !exp.Alive {
				continue
			}
			if msg := s.compareEntity(exp, be.H); msg != "" {
				s.violate("C09", "cb.batch_order", t.kind+"/"+EvName(o.Spec.Ev), false, "inside %s callback of batch %s (before=%v) for entity %d, batch member %d is not in its %s state: %s", EvName(o.Spec.Ev), t.kind, before, ent.Label, l, map[bool]string{true: "pre", false: "post"}[before], msg)
				break
			}
		}
	}
	// script
	act := CbNothing
	if len(o.Script) > 0 {
		act = o.Script[(o.Calls-1)%len(o.Script)]
	}
	if t.depth > 0 && (act == CbSet || act == CbEmit) {
		act = CbNothing // one level of nesting only
	}
	s.cbAction(t, o, oi, act, h, ent, key, before, expLocked)
}

func (s *Sim) cbAction(t *txn, o *ObsInst, oi int, act int, h ecs.Entity, ent *Ent, key int, before bool, expLocked bool) {
	if act != CbNothing {
		s.C.Faults["cb_"+CbNames[act]]++
	}
	switch act {
	case CbRead:
		for _, tp := range ent.Types() {
			_ = s.W.Unsafe().Has(h, s.ids[tp])
			if tp < NumMapSingles {
				m := s.mapper(tp)
				p := m.Get(h)
				if p[0] == nil || U[tp].Get(p[0]) != ent.Comps[tp] {
					s.violate("C09", "cb.timing", t.kind+"/map_get", false, "Map.Get inside callback: wrong value for T%02d", tp)
				}
			}
		}
	case CbQuery:
		if s.lockDepth >= 62 {
			// (nearly) all 64 lock bits are taken by held queries; a query from inside the
			// callback would legitimately be the 65th
			return
		}
		f := ecs.NewFilter0(s.W)
		q := f.Query()
		cnt, seen := 0, 0
		for q.Next() {
			cnt++
			if q.Entity() == h {
				seen++
			}
		}
		exp := len(s.M.Live)
		if !before {
			exp += len(t.pend)
			for _, p := range t.post {
				if !p.Alive {
					exp--
				}
			}
		}
		s.C.Checks["cb.once_in_query"]++
		if seen != 1 || cnt != exp {
			s.violate("C09", "cb.once_in_query", t.kind+"/"+EvName(o.Spec.Ev), false, "inside %s callback of %s: entity seen %d times in a Filter0 query, query visited %d entities, expected 1 and %d", EvName(o.Spec.Ev), t.kind, seen, cnt, exp)
		}
		if len(ent.Comps) > 0 {
			tp := ent.Types()[0]
			fl := NewUnsafeFilterAd(s.W, s.idFn(), []int{tp})
			uq := fl.Query(nil)
			seen = 0
			for uq.Next() {
				if uq.Entity() == h {
					seen++
				}
			}
			if seen != 1 {
				s.violate("C09", "cb.once_in_query", t.kind+"/"+EvName(o.Spec.Ev)+"/filtered", false, "inside %s callback of %s: entity seen %d times in a query for T%02d", EvName(o.Spec.Ev), t.kind, seen, tp)
			}
		}
	case CbWritePtr:
		for _, tp := range ent.Types() {
			if U[tp].Mask != allBits {
				continue
			}
			v := uint64(0x7000000000) + uint64(s.OpIdx)*64 + uint64(o.Calls%64)
			p := s.W.Unsafe().Get(h, s.ids[tp])
			U[tp].Put(p, v)
			if l, ok := s.M.ByHandle[h]; ok {
				if _, has := s.M.Get(l).Comps[tp]; has {
					s.M.Get(l).Comps[tp] = v
				}
				if pe, ok := t.post[l]; ok && pe.Alive {
					if _, has := pe.Comps[tp]; has {
						pe.Comps[tp] = v
					}
				}
			} else {
				ent.Comps[tp] = v
			}
			break
		}
	case CbEmit:
		// a custom event emitted from inside the callback (nested dispatch); allowed on a locked world
		ev := EvCustom0 + o.Calls%NumCustom
		t.rows = append(t.rows, evRow{Ev: ev, Key: key, Basis: ent.Types()})
		evt := s.W.Event(s.eventType(ev))
		t.depth++
		t.forceBefore = before
		p, val := s.call(func() { evt.Emit(h) })
		t.depth--
		if p {
			s.violate("C07", "lock.allows", "Emit/in_callback", true, "emitting a custom event from inside a %s callback of %s panicked: %v", EvName(o.Spec.Ev), t.kind, val)
		}
	case CbSet:
		// Map.Set from inside the callback: writes a value and emits OnSetComponents (nested dispatch)
		for _, tp := range ent.Types() {
			if U[tp].Mask != allBits {
				continue
			}
			v := uint64(0x6000000000) + uint64(s.OpIdx)*64 + uint64(o.Calls%64)
			t.rows = append(t.rows, evRow{Ev: EvSet, Key: key, Affected: []int{tp}, Basis: ent.Types()})
			// the new value is part of the expected state before the nested callbacks run
			if l, ok := s.M.ByHandle[h]; ok {
				if _, has := s.M.Get(l).Comps[tp]; has {
					s.M.Get(l).Comps[tp] = v
				}
				if pe, ok := t.post[l]; ok && pe.Alive {
					if _, has := pe.Comps[tp]; has {
						pe.Comps[tp] = v
					}
				}
			} else {
				ent.Comps[tp] = v
			}
			m := s.mapper(tp)
			t.depth++
			t.forceBefore = before
			p, val := s.call(func() { m.Set(h, []uint64{v}) })
			t.depth--
			if p {
				s.violate("C07", "lock.allows", "Set/in_callback", true, "Map.Set from inside a %s callback of %s panicked: %v", EvName(o.Spec.Ev), t.kind, val)
			}
			break
		}
	case CbStats:
		// statistics taken from inside a callback are consistent in themselves: every entity is in
		// exactly one table at every moment a callback can observe
		st := s.W.Stats()
		s.C.Checks["stats.in_callback"]++
		sum := 0
		for i := range st.Archetypes {
			a := &st.Archetypes[i]
			sum += a.Size
			sumT := 0
			for j := range a.Tables {
				sumT += a.Tables[j].Size
			}
			if sumT != a.Size {
				s.violate("C19", "stats.invariants", "in_callback/arch_size", false, "inside a %s callback of %s: archetype %d Size %d, sum of its tables %d", EvName(o.Spec.Ev), t.kind, i, a.Size, sumT)
			}
		}
		if sum != st.Entities.Used {
			s.violate("C19", "stats.invariants", "in_callback/sum_arch", false, "inside a %s callback of %s: sum of archetype sizes %d != Entities.Used %d", EvName(o.Spec.Ev), t.kind, sum, st.Entities.Used)
		}
	case CbOtherWorld:
		// the callback works on another world of the process (batch operations over several
		// tables there): worlds are independent, the operation that is running here must not notice
		w2 := s.scratchWorld()
		if p, val := s.call(func() {
			m2 := ecs.NewMap2[T02, T03](w2)
			m2.NewBatch(3, &T02{V: 1}, &T03{})
			ecs.NewMap1[T02](w2).NewBatch(2, &T02{V: 2})
			ecs.NewMap1[T04](w2).AddBatch(ecs.NewFilter1[T02](w2).Batch(), &T04{})
			par := w2.NewEntity()
			mr := ecs.NewMap2[T02, T12](w2)
			mr.NewBatch(2, &T02{V: 3}, &T12{}, ecs.RelIdx(1, par))
			mr.SetRelationsBatch(ecs.NewFilter2[T02, T12](w2).Batch(), nil, ecs.RelIdx(1, ecs.Entity{}))
			w2.RemoveEntities(ecs.NewFilter0(w2).Batch(), nil)
		}); p {
			s.violate("C06", "batch.equiv", "other_world_in_callback", false, "batch operations on another world from inside a %s callback of %s panicked: %v", EvName(o.Spec.Ev), t.kind, val)
		}
	case CbGC:
		ForceGC(1)
	case CbStructural:
		if expLocked {
			s.C.Checks["lock.blocks"]++
			p, _ := s.call(func() { s.W.NewEntity() })
			if !p {
				s.violate("C07", "lock.blocks", "callback/"+t.kind, true, "NewEntity succeeded inside a %s callback of %s although the world must be locked", EvName(o.Spec.Ev), t.kind)
			}
		}
	case CbUnregSelf:
		if o.Registered {
			o.O.Unregister(s.W)
			o.Registered = false
			o.touched = true
		}
	case CbUnregOther:
		for j, other := range s.observers {
			if j != oi && other.Registered {
				other.O.Unregister(s.W)
				other.Registered = false
				other.touched = true
				break
			}
		}
	case CbRegNew:
		for j, other := range s.observers {
			if j != oi && !other.Registered && !other.touched && !other.Invalid {
				other.O.Register(s.W)
				other.Registered = true
				other.Epoch = s.M.Epoch
				other.touched = true
				break
			}
		}
	}
}

// compareEntity compares the real entity with an expected state; "" if equal.
func (s *Sim) compareEntity(exp *Ent, h ecs.Entity) string {
	u := s.W.Unsafe()
	ids := u.IDs(h)
	if ids.Len() != len(exp.Comps) {
		return fmt.Sprintf("entity %d has %d components, expected %v", exp.Label, ids.Len(), exp.Types())
	}
	for _, tp := range exp.Types() {
		id := s.ids[tp]
		if !u.Has(h, id) {
			return fmt.Sprintf("entity %d lacks T%02d, expected %v", exp.Label, tp, exp.Types())
		}
		got := U[tp].Get(u.Get(h, id))
		if got != exp.Comps[tp] {
			return fmt.Sprintf("entity %d T%02d = %#x, expected %#x", exp.Label, tp, got, exp.Comps[tp])
		}
		if U[tp].IsRel {
			tg := u.GetRelation(h, id)
			if want := s.handleOfView(exp.Tgt[tp]); tg != want {
				return fmt.Sprintf("entity %d relation T%02d target %v, expected %v (label %d)", exp.Label, tp, tg, want, exp.Tgt[tp])
			}
		}
	}
	return ""
}

// handleOfView resolves a target label; labels of pending entities are negative.
func (s *Sim) handleOfView(label int) ecs.Entity {
	if label == 0 {
		return ecs.Entity{}
	}
	if label < 0 && s.cur != nil {
		return s.cur.pend[-label-1].H
	}
	e := s.M.Get(label)
	if e == nil {
		return ecs.Entity{}
	}
	return e.H
}

// labelOrPending maps a handle to its label, or to a negative pending index for
// entities that are being created by the current operation.
func (s *Sim) labelOrPending(t *txn, h ecs.Entity) int {
	if l, ok := s.M.ByHandle[h]; ok {
		return l
	}
	for i, e := range t.pend {
		if e.H == h {
			return -(i + 1)
		}
	}
	for i, e := range t.pend {
		if e.H.IsZero() {
			return -(i + 1)
		}
	}
	return -999
}
