//go:build ark_debug

package sim

const debugBuild = true
