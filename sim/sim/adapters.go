package sim

import (
	"unsafe"

	"github.com/mlange-42/ark/ecs"
)

// Uniform interfaces over ark's generated typed API (adapters_gen.go, one
// generic adapter per arity, instantiated over several universe tuples) and
// over the ID-based API. Values are exchanged as uint64 model values through
// the codecs in universe.go, pointers as raw unsafe.Pointer.

// PtrFn is a component callback; e is the zero entity for single-entity operations.
type PtrFn func(e ecs.Entity, ptrs []unsafe.Pointer)

// Mapper abstracts Map1..Map12 (and Map via mapAd0).
type Mapper interface {
	Types() []int
	NewEntity(vals []uint64, rels []ecs.Relation) ecs.Entity
	NewEntityFn(fn PtrFn, rels []ecs.Relation) ecs.Entity
	NewBatch(n int, vals []uint64, rels []ecs.Relation)
	NewBatchFn(n int, fn PtrFn, rels []ecs.Relation)
	Get(e ecs.Entity) []unsafe.Pointer
	GetUnchecked(e ecs.Entity) []unsafe.Pointer
	GetRelationUnchecked(e ecs.Entity, idx int) ecs.Entity
	HasAll(e ecs.Entity) bool
	Add(e ecs.Entity, vals []uint64, rels []ecs.Relation)
	AddFn(e ecs.Entity, fn PtrFn, rels []ecs.Relation)
	Set(e ecs.Entity, vals []uint64)
	AddBatch(b ecs.Batch, vals []uint64, rels []ecs.Relation)
	AddBatchFn(b ecs.Batch, fn PtrFn, rels []ecs.Relation)
	Remove(e ecs.Entity)
	RemoveBatch(b ecs.Batch, fn func(ecs.Entity))
	GetRelation(e ecs.Entity, idx int) ecs.Entity
	SetRelations(e ecs.Entity, rels []ecs.Relation)
	SetRelationsBatch(b ecs.Batch, fn func(ecs.Entity), rels []ecs.Relation)
}

// Exchanger abstracts Exchange1..Exchange8.
type Exchanger interface {
	Types() []int
	Removes(ts []int)
	Add(e ecs.Entity, vals []uint64, rels []ecs.Relation)
	AddFn(e ecs.Entity, fn PtrFn, rels []ecs.Relation)
	Remove(e ecs.Entity)
	Exchange(e ecs.Entity, vals []uint64, rels []ecs.Relation)
	ExchangeFn(e ecs.Entity, fn PtrFn, rels []ecs.Relation)
	AddBatch(b ecs.Batch, vals []uint64, rels []ecs.Relation)
	AddBatchFn(b ecs.Batch, fn PtrFn, rels []ecs.Relation)
	RemoveBatch(b ecs.Batch, fn func(ecs.Entity))
	ExchangeBatch(b ecs.Batch, vals []uint64, rels []ecs.Relation)
	ExchangeBatchFn(b ecs.Batch, fn PtrFn, rels []ecs.Relation)
}

// Filterer abstracts Filter0..Filter8 and UnsafeFilter.
type Filterer interface {
	Types() []int
	With(ts []int)
	Without(ts []int)
	Exclusive()
	Relations(rels []ecs.Relation)
	CanRegister() bool
	Register()
	Unregister()
	Query(rels []ecs.Relation) Querier
	Batch(rels []ecs.Relation) ecs.Batch
}

// Querier abstracts Query0..Query8 and UnsafeQuery.
type Querier interface {
	Next() bool
	Entity() ecs.Entity
	// Get returns the pointers to the query's generic components (typed) or to
	// the given universe types (unsafe).
	Get() []unsafe.Pointer
	GetRelation(idx int) ecs.Entity
	Count() int
	EntityAt(i int) ecs.Entity
	Close()
}

// Observerer abstracts Observer and Observer1..Observer4.
type Observerer interface {
	Types() []int
	For(ts []int)
	With(ts []int)
	Without(ts []int)
	Exclusive()
	Do(fn PtrFn)
	Register(w *ecs.World)
	Unregister(w *ecs.World)
}

func comps(ts []int) []ecs.Comp {
	out := make([]ecs.Comp, len(ts))
	for i, t := range ts {
		out[i] = U[t].Comp
	}
	return out
}

// ---------------------------------------------------------------------------
// ecs.Map[T] (single component, target ...Entity signature) as a Mapper.

type mapSingle[A any] struct {
	m *ecs.Map[A]
	t []int
}

func newMapSingle[A any](w *ecs.World, t int) Mapper {
	return &mapSingle[A]{m: ecs.NewMap[A](w), t: []int{t}}
}

// singleTargets is set by the executor right before calling a mapSingle
// method that takes `target ...Entity`.
var singleTargets []ecs.Entity

func (a *mapSingle[A]) Types() []int { return a.t }
func (a *mapSingle[A]) val(v uint64) *A {
	var c A
	U[a.t[0]].Put(unsafe.Pointer(&c), v)
	return &c
}
func (a *mapSingle[A]) NewEntity(vals []uint64, _ []ecs.Relation) ecs.Entity {
	return a.m.NewEntity(a.val(vals[0]), singleTargets...)
}
func (a *mapSingle[A]) NewEntityFn(fn PtrFn, _ []ecs.Relation) ecs.Entity {
	if fn == nil {
		return a.m.NewEntityFn(nil, singleTargets...)
	}
	return a.m.NewEntityFn(func(p *A) { fn(ecs.Entity{}, []unsafe.Pointer{unsafe.Pointer(p)}) }, singleTargets...)
}
func (a *mapSingle[A]) NewBatch(n int, vals []uint64, _ []ecs.Relation) {
	a.m.NewBatch(n, a.val(vals[0]), singleTargets...)
}
func (a *mapSingle[A]) NewBatchFn(n int, fn PtrFn, _ []ecs.Relation) {
	if fn == nil {
		a.m.NewBatchFn(n, nil, singleTargets...)
		return
	}
	a.m.NewBatchFn(n, func(e ecs.Entity, p *A) { fn(e, []unsafe.Pointer{unsafe.Pointer(p)}) }, singleTargets...)
}
func (a *mapSingle[A]) Get(e ecs.Entity) []unsafe.Pointer {
	return []unsafe.Pointer{unsafe.Pointer(a.m.Get(e))}
}
func (a *mapSingle[A]) GetUnchecked(e ecs.Entity) []unsafe.Pointer {
	return []unsafe.Pointer{unsafe.Pointer(a.m.GetUnchecked(e))}
}
func (a *mapSingle[A]) GetRelationUnchecked(e ecs.Entity, _ int) ecs.Entity {
	return a.m.GetRelationUnchecked(e)
}
func (a *mapSingle[A]) HasAll(e ecs.Entity) bool { return a.m.Has(e) && a.m.HasUnchecked(e) }
func (a *mapSingle[A]) Add(e ecs.Entity, vals []uint64, _ []ecs.Relation) {
	a.m.Add(e, a.val(vals[0]), singleTargets...)
}
func (a *mapSingle[A]) AddFn(e ecs.Entity, fn PtrFn, _ []ecs.Relation) {
	if fn == nil {
		a.m.AddFn(e, nil, singleTargets...)
		return
	}
	a.m.AddFn(e, func(p *A) { fn(ecs.Entity{}, []unsafe.Pointer{unsafe.Pointer(p)}) }, singleTargets...)
}
func (a *mapSingle[A]) Set(e ecs.Entity, vals []uint64) { a.m.Set(e, a.val(vals[0])) }
func (a *mapSingle[A]) AddBatch(b ecs.Batch, vals []uint64, _ []ecs.Relation) {
	a.m.AddBatch(b, a.val(vals[0]), singleTargets...)
}
func (a *mapSingle[A]) AddBatchFn(b ecs.Batch, fn PtrFn, _ []ecs.Relation) {
	if fn == nil {
		a.m.AddBatchFn(b, nil, singleTargets...)
		return
	}
	a.m.AddBatchFn(b, func(e ecs.Entity, p *A) { fn(e, []unsafe.Pointer{unsafe.Pointer(p)}) }, singleTargets...)
}
func (a *mapSingle[A]) Remove(e ecs.Entity)                          { a.m.Remove(e) }
func (a *mapSingle[A]) RemoveBatch(b ecs.Batch, fn func(ecs.Entity)) { a.m.RemoveBatch(b, fn) }
func (a *mapSingle[A]) GetRelation(e ecs.Entity, _ int) ecs.Entity   { return a.m.GetRelation(e) }
func (a *mapSingle[A]) SetRelations(e ecs.Entity, _ []ecs.Relation) {
	a.m.SetRelation(e, singleTargets[0])
}
func (a *mapSingle[A]) SetRelationsBatch(b ecs.Batch, fn func(ecs.Entity), _ []ecs.Relation) {
	a.m.SetRelationBatch(b, singleTargets[0], fn)
}

// ---------------------------------------------------------------------------
// UnsafeFilter / UnsafeQuery as Filterer / Querier.

type unsafeFilterAd struct {
	w    *ecs.World
	ids  func(t int) ecs.ID
	f    ecs.UnsafeFilter
	with []int
	wo   []int
	excl bool
	rels []ecs.Relation
	get  []int // universe types whose pointers Get() returns
}

// NewUnsafeFilterAd creates an ID-based filter over the given universe types.
func NewUnsafeFilterAd(w *ecs.World, ids func(t int) ecs.ID, ts []int) Filterer {
	return &unsafeFilterAd{w: w, ids: ids, with: append([]int{}, ts...), get: append([]int{}, ts...)}
}

func (a *unsafeFilterAd) Types() []int                  { return a.get }
func (a *unsafeFilterAd) With(ts []int)                 { a.with = append(a.with, ts...) }
func (a *unsafeFilterAd) Without(ts []int)              { a.wo = append(a.wo, ts...) }
func (a *unsafeFilterAd) Exclusive()                    { a.excl = true }
func (a *unsafeFilterAd) Relations(rels []ecs.Relation) { a.rels = append(a.rels, rels...) }
func (a *unsafeFilterAd) CanRegister() bool             { return false }
func (a *unsafeFilterAd) Register()                     { panic("unsafe filter can't be registered") }
func (a *unsafeFilterAd) Unregister()                   { panic("unsafe filter can't be unregistered") }
func (a *unsafeFilterAd) Batch(_ []ecs.Relation) ecs.Batch {
	panic("unsafe filter has no batch")
}
func (a *unsafeFilterAd) build() ecs.UnsafeFilter {
	ids := make([]ecs.ID, len(a.with))
	for i, t := range a.with {
		ids[i] = a.ids(t)
	}
	f := ecs.NewUnsafeFilter(a.w, ids...)
	if len(a.wo) > 0 {
		wo := make([]ecs.ID, len(a.wo))
		for i, t := range a.wo {
			wo[i] = a.ids(t)
		}
		f = f.Without(wo...)
	}
	if a.excl {
		f = f.Exclusive()
	}
	return f
}
func (a *unsafeFilterAd) Query(rels []ecs.Relation) Querier {
	f := a.build()
	all := rels // the caller's slice is passed on as it is (it may be shared between goroutines)
	if len(a.rels) > 0 {
		all = append(append([]ecs.Relation{}, a.rels...), rels...)
	}
	q := &unsafeQueryAd{q: f.Query(all...), a: a}
	return q
}

type unsafeQueryAd struct {
	q ecs.UnsafeQuery
	a *unsafeFilterAd
}

func (q *unsafeQueryAd) Next() bool         { return q.q.Next() }
func (q *unsafeQueryAd) Entity() ecs.Entity { return q.q.Entity() }
func (q *unsafeQueryAd) Get() []unsafe.Pointer {
	out := make([]unsafe.Pointer, len(q.a.get))
	for i, t := range q.a.get {
		out[i] = q.q.Get(q.a.ids(t))
	}
	return out
}
func (q *unsafeQueryAd) GetRelation(idx int) ecs.Entity {
	return q.q.GetRelation(q.a.ids(q.a.get[idx]))
}
func (q *unsafeQueryAd) Count() int                { return q.q.Count() }
func (q *unsafeQueryAd) EntityAt(i int) ecs.Entity { return q.q.EntityAt(i) }
func (q *unsafeQueryAd) Close()                    { q.q.Close() }

// Raw gives access to the underlying UnsafeQuery (Has/IDs).
func (q *unsafeQueryAd) Raw() *ecs.UnsafeQuery { return &q.q }

// ---------------------------------------------------------------------------
// ecs.Observer (non-generic) as an Observerer.

type observerAd0 struct {
	o *ecs.Observer
}

// NewObserverAd0 creates a non-generic observer adapter.
func NewObserverAd0(evt ecs.EventType) Observerer {
	return &observerAd0{o: ecs.Observe(evt)}
}
func (a *observerAd0) Types() []int     { return nil }
func (a *observerAd0) For(ts []int)     { a.o.For(comps(ts)...) }
func (a *observerAd0) With(ts []int)    { a.o.With(comps(ts)...) }
func (a *observerAd0) Without(ts []int) { a.o.Without(comps(ts)...) }
func (a *observerAd0) Exclusive()       { a.o.Exclusive() }
func (a *observerAd0) Do(fn PtrFn) {
	a.o.Do(func(e ecs.Entity) { fn(e, nil) })
}
func (a *observerAd0) Register(w *ecs.World)   { a.o.Register(w) }
func (a *observerAd0) Unregister(w *ecs.World) { a.o.Unregister(w) }
