package sim

// Own PRNG (splitmix64 seeding a xoshiro256**). math/rand is never used so
// that no global or lazily seeded source can leak into a run.

// SplitMix64 advances the state and returns the next value.
func SplitMix64(x *uint64) uint64 {
	*x += 0x9E3779B97F4A7C15
	z := *x
	z = (z ^ (z >> 30)) * 0xBF58476D1CE4E5B9
	z = (z ^ (z >> 27)) * 0x94D049BB133111EB
	return z ^ (z >> 31)
}

// Rng is a xoshiro256** generator.
type Rng struct {
	s [4]uint64
}

// NewRng creates a generator from a list of stream identifiers.
func NewRng(ids ...uint64) *Rng {
	x := uint64(0x243F6A8885A308D3)
	for _, id := range ids {
		x ^= id
		_ = SplitMix64(&x)
		x = x*0x9E3779B97F4A7C15 + 0x1234567
	}
	r := &Rng{}
	for i := range r.s {
		r.s[i] = SplitMix64(&x)
	}
	return r
}

func rotl(x uint64, k uint) uint64 { return (x << k) | (x >> (64 - k)) }

// Uint64 returns the next 64 random bits.
func (r *Rng) Uint64() uint64 {
	res := rotl(r.s[1]*5, 7) * 9
	t := r.s[1] << 17
	r.s[2] ^= r.s[0]
	r.s[3] ^= r.s[1]
	r.s[1] ^= r.s[2]
	r.s[0] ^= r.s[3]
	r.s[2] ^= t
	r.s[3] = rotl(r.s[3], 45)
	return res
}

// Intn returns a value in [0, n). n <= 0 returns 0.
func (r *Rng) Intn(n int) int {
	if n <= 1 {
		return 0
	}
	return int(r.Uint64() % uint64(n))
}

// Range returns a value in [lo, hi].
func (r *Rng) Range(lo, hi int) int {
	if hi <= lo {
		return lo
	}
	return lo + r.Intn(hi-lo+1)
}

// Float returns a value in [0, 1).
func (r *Rng) Float() float64 {
	return float64(r.Uint64()>>11) / float64(1<<53)
}

// Chance returns true with probability p.
func (r *Rng) Chance(p float64) bool {
	return r.Float() < p
}

// Perm returns a random permutation of 0..n-1.
func (r *Rng) Perm(n int) []int {
	p := make([]int, n)
	for i := range p {
		p[i] = i
	}
	for i := n - 1; i > 0; i-- {
		j := r.Intn(i + 1)
		p[i], p[j] = p[j], p[i]
	}
	return p
}

// Weighted picks an index with probability proportional to its weight.
func (r *Rng) Weighted(w []float64) int {
	t := 0.0
	for _, x := range w {
		t += x
	}
	if t <= 0 {
		return 0
	}
	x := r.Float() * t
	for i, v := range w {
		if x < v {
			return i
		}
		x -= v
	}
	return len(w) - 1
}
