package sim

import (
	"fmt"
	"unsafe"

	"github.com/mlange-42/ark/ecs"
)

// Single-entity operations.

func (s *Sim) count(api string) { s.C.APICalls[api]++ }

// checkZero verifies that components added without initial value read as zero (C11 mem.zero).
func (s *Sim) checkZero(h ecs.Entity, ts []int, where string) {
	for _, t := range ts {
		p := s.W.Unsafe().Get(h, s.ids[t])
		s.C.Checks["mem.zero"]++
		if U[t].Size == 0 {
			continue
		}
		if l, ok := s.M.ByHandle[h]; ok {
			if mv, has := s.M.Get(l).Comps[t]; has && mv != 0 {
				continue // a callback of the same operation already wrote to it
			}
		}
		if v := U[t].Get(p); v != 0 {
			s.violate("C11", "mem.zero", where, false, "component T%02d added without initial value by %s reads %#x instead of its zero value", t, where, v)
			return
		}
	}
}

// writeVals writes values through Unsafe.Get pointers.
func (s *Sim) writeVals(h ecs.Entity, ts []int, vals []uint64) {
	for i, t := range ts {
		U[t].Put(s.W.Unsafe().Get(h, s.ids[t]), vals[i])
	}
}

func normVals(ts []int, vals []uint64) map[int]uint64 {
	m := make(map[int]uint64, len(ts))
	for i, t := range ts {
		m[t] = Norm(t, vals[i])
	}
	return m
}

func zeroVals(ts []int) map[int]uint64 {
	m := make(map[int]uint64, len(ts))
	for _, t := range ts {
		m[t] = 0
	}
	return m
}

// singleFn builds the callback for single-entity Fn variants.
func (s *Sim) singleFn(ts []int, vals []uint64, where string) PtrFn {
	return func(_ ecs.Entity, ptrs []unsafe.Pointer) {
		if len(ptrs) != len(ts) {
			bug("callback with %d pointers for %d types", len(ptrs), len(ts))
		}
		for i, p := range ptrs {
			U[ts[i]].Put(p, vals[i])
		}
	}
}

func (s *Sim) createRows(key int, cs []int) []evRow {
	rows := []evRow{{Ev: EvCreate, Key: key, Basis: cs}}
	if rel := relTypesOf(cs); len(rel) > 0 {
		rows = append(rows, evRow{Ev: EvAddRel, Key: key, Affected: rel, Basis: cs})
	}
	return rows
}

func (s *Sim) opNewEntity(op *Op) {
	var cs []int
	path := op.P
	if s.Flags.ForceUnsafe && path == PMap {
		cs = MapTuples[op.Ad%len(MapTuples)]
		path = PUnsafe
	} else if path == PMap {
		cs = MapTuples[op.Ad%len(MapTuples)]
	} else if path == PUnsafe {
		cs = uniqKeep(op.Cs)
	} else {
		path = PWorld
	}
	tgt := s.targetsFor(op, cs)
	vals := s.vals(op, len(cs))
	t := s.newTxn(KNewEntity)
	pe := &Ent{Alive: true, Comps: map[int]uint64{}, Tgt: tgt}
	t.pend = []*Ent{pe}
	t.rows = s.createRows(-1, cs)
	uninit := false
	var h ecs.Entity
	ok := false
	switch path {
	case PWorld:
		s.count("World.NewEntity")
		ok = s.structural(op, t, func() { h = s.W.NewEntity() })
	case PUnsafe:
		uninit = true
		pe.Comps = zeroVals(cs)
		ids := make([]ecs.ID, len(cs))
		for i, c := range cs {
			ids[i] = s.ids[c]
		}
		if len(tgt) == 0 && op.RS != RSIdx {
			s.count("Unsafe.NewEntity")
			ok = s.structural(op, t, func() { h = s.W.Unsafe().NewEntity(ids...) })
		} else {
			st := op.RS
			if st == RSIdx {
				st = RSID
			}
			rels := s.relations(nil, tgt, cs, st)
			s.count("Unsafe.NewEntityRel")
			ok = s.structural(op, t, func() { h = s.W.Unsafe().NewEntityRel(ids, rels...) })
		}
	case PMap:
		m := s.mapper(op.Ad % len(MapTuples))
		rels := s.relations(cs, tgt, cs, op.RS)
		s.setSingleTargets(cs, tgt)
		name := mapperName(cs, op.Ad%len(MapTuples))
		switch op.Fn {
		case FnValue:
			pe.Comps = normVals(cs, vals)
			s.count(name + ".NewEntity")
			ok = s.structural(op, t, func() { h = m.NewEntity(vals, rels) })
		case FnFunc:
			pe.Comps = normVals(cs, vals)
			s.count(name + ".NewEntityFn")
			ok = s.structural(op, t, func() { h = m.NewEntityFn(s.singleFn(cs, vals, name), rels) })
		default:
			uninit = true
			pe.Comps = zeroVals(cs)
			s.count(name + ".NewEntityFn(nil)")
			ok = s.structural(op, t, func() { h = m.NewEntityFn(nil, rels) })
		}
	}
	if !ok {
		return
	}
	if !pe.H.IsZero() && pe.H != h {
		s.violate("C09", "cb.entity", "NewEntity", true, "creation callback reported %v but the operation returned %v", pe.H, h)
		return
	}
	pe.H = h
	s.commit(t)
	if s.fatal {
		return
	}
	s.tracef("%d NewEntity -> %d/%d", s.OpIdx, h.ID(), h.Gen())
	if uninit {
		s.checkZero(h, cs, "NewEntity(uninitialised)")
		if op.Fn != FnNil {
			s.writeVals(h, cs, vals)
			s.M.Get(pe.Label).Comps = normVals(cs, vals)
		}
	}
}

func mapperName(cs []int, idx int) string {
	if idx < NumMapSingles {
		return "Map"
	}
	return fmt.Sprintf("Map%d", len(cs))
}

// setSingleTargets prepares the `target ...Entity` argument for ecs.Map[T].
func (s *Sim) setSingleTargets(cs []int, tgt map[int]int) {
	singleTargets = singleTargets[:0]
	for _, c := range cs {
		if l, ok := tgt[c]; ok {
			singleTargets = append(singleTargets, s.handleOf(l))
		}
	}
}

func uniqKeep(ts []int) []int {
	var out []int
	for _, t := range ts {
		if t >= 0 && t < NumTypes && !contains(out, t) {
			out = append(out, t)
		}
	}
	return out
}

func (s *Sim) opCopyEntity(op *Op) {
	e := s.M.PickLive(op.E)
	if e == nil {
		s.skip(op)
		return
	}
	t := s.newTxn(KCopyEntity)
	pe := e.Clone()
	pe.Label = 0
	pe.H = ecs.Entity{}
	t.pend = []*Ent{pe}
	t.rows = s.createRows(-1, e.Types())
	var h ecs.Entity
	s.count("World.CopyEntity")
	if !s.structural(op, t, func() { h = s.W.CopyEntity(e.H) }) {
		return
	}
	pe.H = h
	s.commit(t)
	s.tracef("%d CopyEntity -> %d/%d", s.OpIdx, h.ID(), h.Gen())
}

func (s *Sim) opRemoveEntity(op *Op) {
	e := s.M.PickLive(op.E)
	if e == nil {
		s.skip(op)
		return
	}
	t := s.newTxn(KRemoveEntity)
	t.rel = true
	p := e.Clone()
	p.Alive = false
	t.post[e.Label] = p
	ts := e.Types()
	t.rows = []evRow{{Ev: EvRemove, Key: e.Label, Basis: ts, Before: true}}
	if rel := relTypesOf(ts); len(rel) > 0 {
		t.rows = append(t.rows, evRow{Ev: EvRemoveRel, Key: e.Label, Affected: rel, Basis: ts, Before: true})
	}
	s.count("World.RemoveEntity")
	if !s.structural(op, t, func() { s.W.RemoveEntity(e.H) }) {
		return
	}
	s.commit(t)
	s.tracef("%d RemoveEntity %d", s.OpIdx, e.Label)
}

func (s *Sim) addRows(label int, old, add []int) []evRow {
	rows := []evRow{{Ev: EvAdd, Key: label, Affected: add, Basis: old}}
	if rel := relTypesOf(add); len(rel) > 0 {
		rows = append(rows, evRow{Ev: EvAddRel, Key: label, Affected: rel, Basis: old})
	}
	return rows
}

func (s *Sim) removeRows(label int, old, rm []int) []evRow {
	rows := []evRow{{Ev: EvRemoveComps, Key: label, Affected: rm, Basis: old, Before: true}}
	if rel := relTypesOf(rm); len(rel) > 0 {
		rows = append(rows, evRow{Ev: EvRemoveRel, Key: label, Affected: rel, Basis: old, Before: true})
	}
	return rows
}

func (s *Sim) idsOf(ts []int) []ecs.ID {
	ids := make([]ecs.ID, len(ts))
	for i, c := range ts {
		ids[i] = s.ids[c]
	}
	return ids
}

func (s *Sim) opAdd(op *Op) {
	e := s.M.PickLive(op.E)
	if e == nil {
		s.skip(op)
		return
	}
	path := op.P
	var cs []int
	switch path {
	case PMap:
		cs = MapTuples[op.Ad%len(MapTuples)]
	case PEx:
		cs = ExTuples[op.Ad%len(ExTuples)]
	default:
		path = PUnsafe
		cs = uniqKeep(op.Cs)
	}
	if s.Flags.ForceUnsafe {
		path = PUnsafe
	}
	if len(cs) == 0 || e.HasAny(cs...) {
		s.skip(op)
		return
	}
	tgt := s.targetsFor(op, cs)
	vals := s.vals(op, len(cs))
	t := s.newTxn(KAdd)
	post := e.Clone()
	old := e.Types()
	for c, l := range tgt {
		post.Tgt[c] = l
	}
	t.post[e.Label] = post
	t.rows = s.addRows(e.Label, old, cs)
	uninit := false
	ok := false
	set := func(m map[int]uint64) {
		for k, v := range m {
			post.Comps[k] = v
		}
	}
	switch path {
	case PUnsafe:
		uninit = true
		set(zeroVals(cs))
		ids := s.idsOf(cs)
		if len(tgt) == 0 {
			s.count("Unsafe.Add")
			ok = s.structural(op, t, func() { s.W.Unsafe().Add(e.H, ids...) })
		} else {
			st := op.RS
			if st == RSIdx {
				st = RSType
			}
			rels := s.relations(nil, tgt, cs, st)
			s.count("Unsafe.AddRel")
			ok = s.structural(op, t, func() { s.W.Unsafe().AddRel(e.H, ids, rels...) })
		}
	case PMap, PEx:
		rels := s.relations(cs, tgt, cs, op.RS)
		var add func(vals []uint64, rels []ecs.Relation)
		var addFn func(fn PtrFn, rels []ecs.Relation)
		var name string
		if path == PMap {
			m := s.mapper(op.Ad % len(MapTuples))
			s.setSingleTargets(cs, tgt)
			name = mapperName(cs, op.Ad%len(MapTuples))
			add = func(v []uint64, r []ecs.Relation) { m.Add(e.H, v, r) }
			addFn = func(fn PtrFn, r []ecs.Relation) { m.AddFn(e.H, fn, r) }
		} else {
			x := s.exchanger(op.Ad%len(ExTuples), nil)
			name = fmt.Sprintf("Exchange%d", len(cs))
			add = func(v []uint64, r []ecs.Relation) { x.Add(e.H, v, r) }
			addFn = func(fn PtrFn, r []ecs.Relation) { x.AddFn(e.H, fn, r) }
		}
		switch op.Fn {
		case FnValue:
			set(normVals(cs, vals))
			s.count(name + ".Add")
			ok = s.structural(op, t, func() { add(vals, rels) })
		case FnFunc:
			set(normVals(cs, vals))
			s.count(name + ".AddFn")
			ok = s.structural(op, t, func() { addFn(s.singleFn(cs, vals, name), rels) })
		default:
			uninit = true
			set(zeroVals(cs))
			s.count(name + ".AddFn(nil)")
			ok = s.structural(op, t, func() { addFn(nil, rels) })
		}
	}
	if !ok {
		return
	}
	s.commit(t)
	if s.fatal {
		return
	}
	s.tracef("%d Add %d %v", s.OpIdx, e.Label, cs)
	if uninit {
		s.checkZero(e.H, cs, "Add(uninitialised)")
		if op.Fn != FnNil {
			s.writeVals(e.H, cs, vals)
			for k, v := range normVals(cs, vals) {
				s.M.Get(e.Label).Comps[k] = v
			}
		}
	}
}

func (s *Sim) opRemove(op *Op) {
	e := s.M.PickLive(op.E)
	if e == nil {
		s.skip(op)
		return
	}
	path := op.P
	var cs []int
	switch path {
	case PMap:
		cs = MapTuples[op.Ad%len(MapTuples)]
	case PEx:
		cs = uniqKeep(op.Cs)
	default:
		path = PUnsafe
		cs = uniqKeep(op.Cs)
	}
	if s.Flags.ForceUnsafe {
		path = PUnsafe
	}
	if len(cs) == 0 || !e.Has(cs...) {
		s.skip(op)
		return
	}
	t := s.newTxn(KRemove)
	post := e.Clone()
	for _, c := range cs {
		delete(post.Comps, c)
		delete(post.Tgt, c)
	}
	t.post[e.Label] = post
	t.rows = s.removeRows(e.Label, e.Types(), cs)
	ok := false
	switch path {
	case PUnsafe:
		s.count("Unsafe.Remove")
		ok = s.structural(op, t, func() { s.W.Unsafe().Remove(e.H, s.idsOf(cs)...) })
	case PMap:
		m := s.mapper(op.Ad % len(MapTuples))
		s.count(mapperName(cs, op.Ad%len(MapTuples)) + ".Remove")
		ok = s.structural(op, t, func() { m.Remove(e.H) })
	case PEx:
		x := s.exchanger(op.Ad%len(ExTuples), cs)
		s.count(fmt.Sprintf("Exchange%d.Remove", len(ExTuples[op.Ad%len(ExTuples)])))
		ok = s.structural(op, t, func() { x.Remove(e.H) })
	}
	if !ok {
		return
	}
	s.commit(t)
	s.tracef("%d Remove %d %v", s.OpIdx, e.Label, cs)
}

func (s *Sim) opExchange(op *Op) {
	e := s.M.PickLive(op.E)
	if e == nil {
		s.skip(op)
		return
	}
	path := op.P
	var add []int
	if path == PEx {
		add = ExTuples[op.Ad%len(ExTuples)]
	} else {
		path = PUnsafe
		add = uniqKeep(op.Cs)
	}
	if s.Flags.ForceUnsafe {
		path = PUnsafe
	}
	rm := uniqKeep(op.Rm)
	if (len(add) == 0 && len(rm) == 0) || e.HasAny(add...) || !e.Has(rm...) || intersects(add, rm) {
		s.skip(op)
		return
	}
	if path == PEx && len(rm) == 0 {
		// ExchangeN.Exchange without Removes is just Add; keep it as such.
	}
	tgt := s.targetsFor(op, add)
	vals := s.vals(op, len(add))
	t := s.newTxn(KExchange)
	post := e.Clone()
	old := e.Types()
	for _, c := range rm {
		delete(post.Comps, c)
		delete(post.Tgt, c)
	}
	for c, l := range tgt {
		post.Tgt[c] = l
	}
	t.post[e.Label] = post
	if len(rm) > 0 {
		t.rows = append(t.rows, s.removeRows(e.Label, old, rm)...)
	}
	if len(add) > 0 {
		t.rows = append(t.rows, s.addRows(e.Label, old, add)...)
	}
	set := func(m map[int]uint64) {
		for k, v := range m {
			post.Comps[k] = v
		}
	}
	uninit := false
	ok := false
	if path == PUnsafe {
		uninit = true
		set(zeroVals(add))
		st := op.RS
		if st == RSIdx {
			st = RSID
		}
		rels := s.relations(nil, tgt, add, st)
		s.count("Unsafe.Exchange")
		ok = s.structural(op, t, func() { s.W.Unsafe().Exchange(e.H, s.idsOf(add), s.idsOf(rm), rels...) })
	} else {
		x := s.exchanger(op.Ad%len(ExTuples), rm)
		rels := s.relations(add, tgt, add, op.RS)
		name := fmt.Sprintf("Exchange%d", len(add))
		switch op.Fn {
		case FnValue:
			set(normVals(add, vals))
			s.count(name + ".Exchange")
			ok = s.structural(op, t, func() { x.Exchange(e.H, vals, rels) })
		case FnFunc:
			set(normVals(add, vals))
			s.count(name + ".ExchangeFn")
			ok = s.structural(op, t, func() { x.ExchangeFn(e.H, s.singleFn(add, vals, name), rels) })
		default:
			uninit = true
			set(zeroVals(add))
			s.count(name + ".ExchangeFn(nil)")
			ok = s.structural(op, t, func() { x.ExchangeFn(e.H, nil, rels) })
		}
	}
	if !ok {
		return
	}
	s.commit(t)
	if s.fatal {
		return
	}
	s.tracef("%d Exchange %d +%v -%v", s.OpIdx, e.Label, add, rm)
	if uninit && len(add) > 0 {
		s.checkZero(e.H, add, "Exchange(uninitialised)")
		if op.Fn != FnNil {
			s.writeVals(e.H, add, vals)
			for k, v := range normVals(add, vals) {
				s.M.Get(e.Label).Comps[k] = v
			}
		}
	}
}

// Set paths (Op.P): PMap = mapper.Set (emits OnSetComponents), PUnsafe = write
// through Unsafe.Get pointers, PEx = write through mapper.Get pointers.
func (s *Sim) opSet(op *Op) {
	e := s.M.PickLive(op.E)
	if e == nil {
		s.skip(op)
		return
	}
	path := op.P
	var cs []int
	if path == PMap || path == PEx {
		cs = MapTuples[op.Ad%len(MapTuples)]
	} else {
		cs = uniqKeep(op.Cs)
	}
	if s.Flags.ForceUnsafe && path != PMap {
		// Map.Set has no ID-based counterpart (it emits OnSetComponents); it stays typed.
		path = PUnsafe
	}
	if len(cs) == 0 || !e.Has(cs...) {
		s.skip(op)
		return
	}
	vals := s.vals(op, len(cs))
	switch path {
	case PMap:
		m := s.mapper(op.Ad % len(MapTuples))
		t := s.newTxn(KSet)
		post := e.Clone()
		for k, v := range normVals(cs, vals) {
			post.Comps[k] = v
		}
		t.post[e.Label] = post
		t.rows = []evRow{{Ev: EvSet, Key: e.Label, Affected: cs, Basis: e.Types()}}
		s.count(mapperName(cs, op.Ad%len(MapTuples)) + ".Set")
		s.cur = t
		p, val := s.call(func() { m.Set(e.H, vals) })
		s.cur = nil
		if p {
			s.violate("C07", "lock.allows", "Set", true, "Set on an alive entity with all components panicked (locked=%v): %v", s.locked(), val)
			return
		}
		s.commit(t)
	case PEx:
		m := s.mapper(op.Ad % len(MapTuples))
		s.count(mapperName(cs, op.Ad%len(MapTuples)) + ".Get")
		ptrs := m.Get(e.H)
		for i, p := range ptrs {
			want := s.W.Unsafe().Get(e.H, s.ids[cs[i]])
			s.C.Checks["api.pointers"]++
			if p != want {
				s.violate("C14", "api.pointers", mapperName(cs, op.Ad%len(MapTuples))+".Get", false, "%s.Get pointer %d (T%02d) = %x, Unsafe.Get = %x", mapperName(cs, op.Ad%len(MapTuples)), i, cs[i], ptrOf(p), ptrOf(want))
				return
			}
			U[cs[i]].Put(p, vals[i])
		}
		for k, v := range normVals(cs, vals) {
			e.Comps[k] = v
		}
	default:
		s.count("Unsafe.Get")
		s.writeVals(e.H, cs, vals)
		for k, v := range normVals(cs, vals) {
			e.Comps[k] = v
		}
	}
	s.tracef("%d Set %d %v", s.OpIdx, e.Label, cs)
}

func (s *Sim) opSetRel(op *Op) {
	e := s.M.PickLive(op.E)
	if e == nil || len(e.Tgt) == 0 {
		s.skip(op)
		return
	}
	path := op.P
	var tuple []int
	var cs []int
	if path == PMap {
		tuple = MapTuples[op.Ad%len(MapTuples)]
		for _, c := range relTypesOf(tuple) {
			if e.Has(c) {
				cs = append(cs, c)
			}
		}
	} else {
		path = PUnsafe
		for _, c := range uniqKeep(op.Cs) {
			if U[c].IsRel && e.Has(c) {
				cs = append(cs, c)
			}
		}
		if len(cs) == 0 {
			for _, c := range relTypesOf(e.Types()) {
				cs = append(cs, c)
				break
			}
		}
	}
	if s.Flags.ForceUnsafe {
		path = PUnsafe
	}
	if len(cs) == 0 {
		s.skip(op)
		return
	}
	tgt := s.targetsFor(op, cs)
	var changed []int
	for _, c := range cs {
		if tgt[c] != e.Tgt[c] {
			changed = append(changed, c)
		}
	}
	t := s.newTxn(KSetRel)
	post := e.Clone()
	for c, l := range tgt {
		post.Tgt[c] = l
	}
	t.post[e.Label] = post
	if len(changed) > 0 {
		ts := e.Types()
		t.rows = []evRow{
			{Ev: EvRemoveRel, Key: e.Label, Affected: changed, Basis: ts, Before: true},
			{Ev: EvAddRel, Key: e.Label, Affected: changed, Basis: ts},
		}
	}
	t.rel = true
	ok := false
	if path == PUnsafe {
		st := op.RS
		if st == RSIdx {
			st = RSID
		}
		rels := s.relations(nil, tgt, cs, st)
		s.count("Unsafe.SetRelations")
		ok = s.structural(op, t, func() { s.W.Unsafe().SetRelations(e.H, rels...) })
	} else {
		idx := op.Ad % len(MapTuples)
		m := s.mapper(idx)
		rels := s.relations(tuple, tgt, cs, op.RS)
		s.setSingleTargets(cs, tgt)
		s.count(mapperName(tuple, idx) + ".SetRelations")
		ok = s.structural(op, t, func() { m.SetRelations(e.H, rels) })
	}
	if !ok {
		return
	}
	s.commit(t)
	s.tracef("%d SetRel %d %v", s.OpIdx, e.Label, cs)
}
