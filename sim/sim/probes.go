package sim

import "github.com/mlange-42/ark/ecs"

// Reach probes (guarded hooks in /repo, build tag verif).
const (
	probeTableRecycled     = ecs.VerifProbeTableRecycled
	probeTableFreedCleanup = ecs.VerifProbeTableFreedCleanup
	probeTableFreedShrink  = ecs.VerifProbeTableFreedShrink
	probeTableGrow         = ecs.VerifProbeTableGrow
	probeTableShrink       = ecs.VerifProbeTableShrink
	probeColumnResetSmall  = ecs.VerifProbeColumnResetSmall
	probeColumnResetLarge  = ecs.VerifProbeColumnResetLarge
	probeCacheAdd          = ecs.VerifProbeCacheAdd
	probeCacheRemove       = ecs.VerifProbeCacheRemove
	probeChildrenMoved     = ecs.VerifProbeChildrenMoved
	probeSwapRemove        = ecs.VerifProbeSwapRemove
	probeBatchIntoNonEmpty = ecs.VerifProbeBatchIntoNonEmpty
)

// ProbeNames names the probes for evidence files.
var ProbeNames = []string{"table_recycled", "table_freed_cleanup", "table_freed_shrink", "table_grow", "table_shrink", "column_reset_small", "column_reset_large", "cache_add", "cache_remove", "children_moved", "swap_remove", "batch_into_nonempty"}
