package sim

// ProfileFor returns the profile (op weights, oracle frequencies) of a property check.
func ProfileFor(prop, tier string, r *Rng) *Profile {
	p := DefaultProfile()
	p.Name = prop
	if tier == "thorough" {
		p.MaxOps = 600
		p.MaxEntities = 250
		if r != nil && r.Chance(0.1) {
			p.MaxOps = 1500
			p.MaxEntities = 1500
			p.BigBatch = true
		}
	}
	p.W[KRegistry] = 0.3
	if prop == "C02" || prop == "C04" || prop == "C06" {
		p.W[KBigBatch] = 0.4
	}
	if prop != "C16" {
		p.Echo = 0.05
	}
	switch prop {
	case "C03", "C04", "C05", "C15", "C12":
		p.Scenarios = 0.03
	case "C14":
		p.Scenarios = 0.04
	case "C01", "C11", "C19", "C13", "C07", "C06":
		p.Scenarios = 0.01
	}
	scale := func(f float64, kinds ...string) {
		for _, k := range kinds {
			p.W[k] *= f
		}
	}
	switch prop {
	case "C01":
		scale(2, KAddBatch, KRemoveBatch, KExchangeBatch, KNewBatch, KCopyEntity, KExchange)
		scale(0.3, KNewObserver, KMisuse, KOpenQuery)
	case "C02":
		scale(3, KRemoveEntity, KRemoveEntities, KCopyEntity, KNewEntities, KNewBatch)
		scale(3, KDumpLoad)
		scale(0.3, KNewObserver, KSet, KSetRel)
	case "C03":
		p.SweepEvery = 3
		scale(3, KSweep, KNewFilter, KSetRel, KRemoveEntity)
		scale(0.3, KNewObserver, KMisuse)
	case "C04":
		scale(3, KSetRel, KSetRelBatch, KRemoveEntities, KRemoveEntity)
		scale(2, KShrink, KReset)
		scale(0.3, KNewObserver, KMisuse)
	case "C05":
		p.SweepEvery = 4
		scale(3, KRegister, KUnregister, KSweep, KNewFilter, KSetRel, KRemoveEntity, KOpenQuery, KNext)
		scale(2, KShrink, KReset)
		scale(0.3, KNewObserver, KMisuse)
	case "C06":
		scale(2, KSetRel, KRemoveEntity)
		scale(5, KAddBatch, KRemoveBatch, KExchangeBatch, KSetRelBatch, KRemoveEntities, KNewBatch, KNewEntities)
		scale(2, KNewFilter)
		scale(0.3, KMisuse)
	case "C07":
		scale(4, KOpenQuery, KNext, KCloseQuery)
		scale(0.5, KNewObserver)
	case "C08", "C09":
		scale(4, KNewObserver, KRegObs, KUnregObs, KEmit)
		scale(3, KUnregObs, KRegObs)
		scale(2.5, KNewBatch)
		scale(2, KAddBatch, KRemoveBatch, KExchangeBatch, KSetRelBatch, KRemoveEntities, KExchange, KSetRel)
		scale(0.3, KMisuse, KOpenQuery)
	case "C10":
		scale(10, KMisuse)
		p.W[KMatrix] = 0.6
	case "C11":
		if r != nil && r.Chance(0.35) {
			p.BigBatch = true
			p.MaxEntities = 400
		}
		scale(2, KRemoveEntities, KAddBatch, KNewEntities)
		scale(4, KGC)
		scale(2, KExchange, KRemove, KRemoveEntity, KReset, KShrink, KNewBatch, KExchangeBatch)
		scale(0.3, KMisuse, KNewObserver)
	case "C14":
		p.SweepEvery = 5
		scale(2, KSweep, KNewFilter, KNext, KOpenQuery)
		// component types registered after typed mappers, filters and observers were created
		p.W[KRegistry] = 1.2
	case "C15":
		scale(8, KShrink)
		scale(2, KRegister, KSweep, KSetRel, KRemoveEntity)
		scale(0.3, KMisuse, KNewObserver)
	case "C16":
		scale(8, KReset)
		scale(3, KShrink, KSetRel)
		p.Scenarios = 0.02
		p.Echo = 0.35
		scale(2, KRegister, KNewObserver, KResource)
		p.NoFixedRels = true
	case "C17":
		scale(15, KDumpLoad, KCodec)
		scale(3, KRemoveEntity, KRemoveEntities, KNewBatch)
		scale(0.2, KNewObserver, KMisuse)
	case "C18":
		scale(8, KResource)
		p.W[KRegistry] = 8
		scale(2, KOpenQuery)
	case "C12":
		scale(3, KSetRel, KRemoveEntity, KSweep, KNewFilter, KRegister, KStats, KNext, KOpenQuery)
		scale(2, KShrink)
		scale(5, KReset)
	case "C20":
		p.Tiny = true
		p.W[KRegistry] = 1.5 // capped at 64 component types by Profile.Tiny (see opRegistry)
		p.W[KQMisuse] = 8
		scale(3, KMisuse, KSweep, KStats)
	case "C19":
		scale(8, KStats)
		p.StatsEvery = 3
	}
	return p
}
