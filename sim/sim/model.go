package sim

import (
	"sort"

	"github.com/mlange-42/ark/ecs"
)

// Reference model of an ark world, written from the documentation: entities
// are labelled records with a component map and relation targets; nothing
// about capacities, tables, bits or iteration order is mirrored.

// Ent is a model entity.
type Ent struct {
	Label int
	H     ecs.Entity
	Alive bool
	Comps map[int]uint64 // universe type -> value
	Tgt   map[int]int    // relation type -> target label (0 = zero entity)
}

// Clone deep-copies the entity state.
func (e *Ent) Clone() *Ent {
	c := &Ent{Label: e.Label, H: e.H, Alive: e.Alive, Comps: make(map[int]uint64, len(e.Comps)), Tgt: make(map[int]int, len(e.Tgt))}
	for k, v := range e.Comps {
		c.Comps[k] = v
	}
	for k, v := range e.Tgt {
		c.Tgt[k] = v
	}
	return c
}

// Types returns the sorted component types of the entity.
func (e *Ent) Types() []int {
	ts := make([]int, 0, len(e.Comps))
	for t := range e.Comps {
		ts = append(ts, t)
	}
	sort.Ints(ts)
	return ts
}

// Has reports whether the entity has all the given types.
func (e *Ent) Has(ts ...int) bool {
	for _, t := range ts {
		if _, ok := e.Comps[t]; !ok {
			return false
		}
	}
	return true
}

// HasAny reports whether the entity has any of the given types.
func (e *Ent) HasAny(ts ...int) bool {
	for _, t := range ts {
		if _, ok := e.Comps[t]; ok {
			return true
		}
	}
	return false
}

// Model is the reference world.
type Model struct {
	Ents      []*Ent             // by label-1, current epoch
	Live      []int              // alive labels, ascending
	Dead      []int              // removed labels of this epoch, in removal order
	ByHandle  map[ecs.Entity]int // every handle issued in this epoch -> label
	Creations int
	Removals  int
	Res       map[int]uint64 // resource slot -> value
	Epoch     int
}

// NewModel creates an empty model.
func NewModel() *Model {
	return &Model{ByHandle: map[ecs.Entity]int{}, Res: map[int]uint64{}}
}

// Reset starts a new epoch.
func (m *Model) Reset() {
	m.Ents = nil
	m.Live = nil
	m.Dead = nil
	m.ByHandle = map[ecs.Entity]int{}
	m.Creations, m.Removals = 0, 0
	m.Res = map[int]uint64{}
	m.Epoch++
}

// Get returns the entity with the given label.
func (m *Model) Get(label int) *Ent {
	if label <= 0 || label > len(m.Ents) {
		return nil
	}
	return m.Ents[label-1]
}

// PickLive resolves an entity index to an alive entity (nil if none).
func (m *Model) PickLive(idx int) *Ent {
	if len(m.Live) == 0 {
		return nil
	}
	if idx < 0 {
		idx = -idx
	}
	return m.Get(m.Live[idx%len(m.Live)])
}

// PickDead resolves an index to a removed entity of this epoch (nil if none).
func (m *Model) PickDead(idx int) *Ent {
	if len(m.Dead) == 0 {
		return nil
	}
	if idx < 0 {
		idx = -idx
	}
	return m.Get(m.Dead[idx%len(m.Dead)])
}

// Create adds a new entity with the given handle.
func (m *Model) Create(h ecs.Entity, comps map[int]uint64, tgt map[int]int) *Ent {
	e := &Ent{Label: len(m.Ents) + 1, H: h, Alive: true, Comps: map[int]uint64{}, Tgt: map[int]int{}}
	for k, v := range comps {
		e.Comps[k] = v
	}
	for k, v := range tgt {
		e.Tgt[k] = v
	}
	m.Ents = append(m.Ents, e)
	m.Live = append(m.Live, e.Label)
	m.ByHandle[h] = e.Label
	m.Creations++
	return e
}

// Remove kills an entity; relations of all entities that target it become zero.
func (m *Model) Remove(label int) {
	e := m.Get(label)
	if e == nil || !e.Alive {
		return
	}
	e.Alive = false
	i := sort.SearchInts(m.Live, label)
	if i < len(m.Live) && m.Live[i] == label {
		m.Live = append(m.Live[:i], m.Live[i+1:]...)
	}
	m.Dead = append(m.Dead, label)
	m.Removals++
	for _, l := range m.Live {
		o := m.Ents[l-1]
		for t, tl := range o.Tgt {
			if tl == label {
				o.Tgt[t] = 0
			}
		}
	}
}

// RelSpec fixes a relation target in a filter spec by entity index.
type RelSpec struct {
	T   int `json:"t"`   // relation component type
	Tgt int `json:"tgt"` // target entity index (-1 = zero entity)
}

// FilterSpec describes a filter.
type FilterSpec struct {
	Ad      int       `json:"ad"`             // FilterTuples index; -1 = UnsafeFilter over Ts
	Ts      []int     `json:"ts,omitempty"`   // generic parameters / ids
	With    []int     `json:"with,omitempty"` // additional required components
	Without []int     `json:"wo,omitempty"`
	Excl    bool      `json:"excl,omitempty"`
	XFirst  bool      `json:"xfirst,omitempty"` // builder order: Exclusive() is called before With(...)
	Rels    []RelSpec `json:"rels,omitempty"`
}

// Required returns all required component types (generic + with).
func (f *FilterSpec) Required() []int {
	return append(append([]int{}, f.Ts...), f.With...)
}

// relPair is a resolved relation constraint.
type relPair struct {
	T     int
	Label int // 0 = zero entity
}

// Matches evaluates a filter on a model entity.
func (m *Model) Matches(e *Ent, f *FilterSpec, rels []relPair) bool {
	if !e.Alive {
		return false
	}
	req := f.Required()
	if !e.Has(req...) {
		return false
	}
	if f.Excl {
		if len(e.Comps) != len(uniq(req)) {
			return false
		}
	} else if e.HasAny(f.Without...) {
		return false
	}
	for _, r := range rels {
		tl, ok := e.Tgt[r.T]
		if !ok || tl != r.Label {
			return false
		}
		if r.Label != 0 {
			t := m.Get(r.Label)
			if t == nil || !t.Alive {
				return false
			}
		}
	}
	return true
}

// Select returns the labels of all entities matching the filter, ascending.
func (m *Model) Select(f *FilterSpec, rels []relPair) []int {
	var out []int
	for _, l := range m.Live {
		if m.Matches(m.Ents[l-1], f, rels) {
			out = append(out, l)
		}
	}
	return out
}

func uniq(ts []int) []int {
	s := append([]int{}, ts...)
	sort.Ints(s)
	out := s[:0]
	for i, t := range s {
		if i == 0 || t != s[i-1] {
			out = append(out, t)
		}
	}
	return out
}

func contains(ts []int, t int) bool {
	for _, x := range ts {
		if x == t {
			return true
		}
	}
	return false
}

func subset(a, b []int) bool {
	for _, x := range a {
		if !contains(b, x) {
			return false
		}
	}
	return true
}

func intersects(a, b []int) bool {
	for _, x := range a {
		if contains(b, x) {
			return true
		}
	}
	return false
}

func sortedCopy(a []int) []int {
	s := append([]int{}, a...)
	sort.Ints(s)
	return s
}

func equalInts(a, b []int) bool {
	if len(a) != len(b) {
		return false
	}
	for i := range a {
		if a[i] != b[i] {
			return false
		}
	}
	return true
}
