package sim

import (
	"math"
	"reflect"
	"runtime"
	"strconv"
	"unsafe"
	"weak"

	"github.com/mlange-42/ark/ecs"
)

// The component universe: 24 types chosen to hit every storage path of ark:
// trivial (pointer-free) types of several sizes, a zero-size type,
// pointer-bearing types (pointer, slice, string, map, struct with pointer,
// array of pointers, interface) and four relation components.

// NumTypes is the number of universe component types.
const NumTypes = 24

// BadValue is decoded from a corrupted pointer-bearing component.
const BadValue uint64 = 0xDEADDEADDEADDEAD

const objMagic uint64 = 0xA5A5F00DCAFE1234

// Obj is the heap object referenced by pointer-bearing components. It is larger
// than 16 bytes and holds a pointer, so it is never tiny-allocated and is
// scanned by the GC.
type Obj struct {
	Magic uint64
	V     uint64
	Inv   uint64
	Self  *Obj
	Pad   [2]uint64
}

// WeakTracker records weak pointers to all objects created for component
// values of a run (only when enabled; used by C11).
type WeakTracker struct {
	Objs map[uint64][]weak.Pointer[Obj] // value -> weak pointers of the objects encoding it
}

type weak_t = weak.Pointer[Obj]

// Tracker is the active weak tracker (nil = tracking off). Engine A is
// single-threaded, one run at a time per process.
var Tracker *WeakTracker

//go:noinline
func newObj(v uint64) *Obj {
	o := &Obj{Magic: objMagic, V: v, Inv: ^v}
	o.Self = o
	if Tracker != nil {
		Tracker.Objs[v] = append(Tracker.Objs[v], weak.Make(o))
	}
	return o
}

func objVal(o *Obj) uint64 {
	if o == nil {
		return 0
	}
	if o.Magic != objMagic || o.Inv != ^o.V || o.Self != o {
		return BadValue
	}
	return o.V
}

// Component types.
type (
	T00 struct{ V uint8 }
	T01 struct{ B [3]uint8 }
	T02 struct{ V uint64 }
	T03 struct{ A, B, C uint64 }
	T04 struct {
		V   uint64
		Pad [4]uint64
	}
	T05 struct{}
	T06 struct{ P *Obj }
	T07 struct{ S []uint64 }
	T08 struct{ S string }
	T09 struct{ M map[uint64]uint64 }
	T10 struct {
		V uint64
		P *Obj
	}
	T11 struct{ Ps [2]*Obj }
	T12 struct{ ecs.RelationMarker }
	T13 struct {
		ecs.RelationMarker
		V uint64
	}
	T14 struct {
		ecs.RelationMarker
		P *Obj
	}
	T15 struct {
		ecs.RelationMarker
		V uint32
	}
	T16 struct{ V uint32 }
	T17 struct{ V float64 }
	T18 struct{ V int16 }
	T19 struct{ V, W uint64 }
	T20 struct{ I any }
	T21 struct{ V [2]uint32 }
	T22 struct {
		V uint64
		S string
	}
	T23 struct {
		V uint8
		W uint64
	}
)

// TypeInfo describes one universe type.
type TypeInfo struct {
	Type  reflect.Type
	Comp  ecs.Comp
	IsRel bool
	IsPtr bool   // contains pointers (non-trivial for ark)
	HasOb bool   // value is encoded in tracked *Obj heap objects
	Mask  uint64 // Norm(v) = v & Mask
	Size  uintptr
	Put   func(p unsafe.Pointer, v uint64)
	Get   func(p unsafe.Pointer) uint64
	ID    func(w *ecs.World) ecs.ID
	Rel   func(t ecs.Entity) ecs.Relation // ecs.Rel[T](t); nil for non-relations
}

// U is the universe.
var U [NumTypes]TypeInfo

func regType[T any](i int, mask uint64, isPtr, hasObj bool, put func(p *T, v uint64), get func(p *T) uint64) {
	tp := reflect.TypeFor[T]()
	isRel := false
	if tp.Kind() == reflect.Struct && tp.NumField() > 0 {
		f := tp.Field(0)
		isRel = f.Type == reflect.TypeFor[ecs.RelationMarker]() && f.Anonymous
	}
	U[i] = TypeInfo{
		Type: tp, Comp: ecs.C[T](), IsRel: isRel, IsPtr: isPtr, HasOb: hasObj, Mask: mask, Size: tp.Size(),
		Put: func(p unsafe.Pointer, v uint64) { put((*T)(p), v&mask) },
		Get: func(p unsafe.Pointer) uint64 { return get((*T)(p)) },
		ID:  func(w *ecs.World) ecs.ID { return ecs.ComponentID[T](w) },
	}
	if isRel {
		U[i].Rel = func(t ecs.Entity) ecs.Relation { return ecs.Rel[T](t) }
	}
}

const allBits = ^uint64(0)

func init() {
	regType(0, 0xff, false, false, func(p *T00, v uint64) { p.V = uint8(v) }, func(p *T00) uint64 { return uint64(p.V) })
	regType(1, 0xffffff, false, false,
		func(p *T01, v uint64) { p.B = [3]uint8{uint8(v), uint8(v >> 8), uint8(v >> 16)} },
		func(p *T01) uint64 { return uint64(p.B[0]) | uint64(p.B[1])<<8 | uint64(p.B[2])<<16 })
	regType(2, allBits, false, false, func(p *T02, v uint64) { p.V = v }, func(p *T02) uint64 { return p.V })
	regType(3, allBits, false, false,
		func(p *T03, v uint64) { p.A, p.B, p.C = v, ^v, v*3 },
		func(p *T03) uint64 {
			if p.B != ^p.A && !(p.A == 0 && p.B == 0 && p.C == 0) || p.C != p.A*3 {
				return BadValue
			}
			return p.A
		})
	regType(4, allBits, false, false,
		func(p *T04, v uint64) {
			p.V = v
			if v == 0 {
				p.Pad = [4]uint64{}
			} else {
				p.Pad = [4]uint64{v + 1, v + 2, v + 3, v + 4}
			}
		},
		func(p *T04) uint64 {
			if p.V == 0 {
				if p.Pad != [4]uint64{} {
					return BadValue
				}
				return 0
			}
			if p.Pad != [4]uint64{p.V + 1, p.V + 2, p.V + 3, p.V + 4} {
				return BadValue
			}
			return p.V
		})
	regType(5, 0, false, false, func(p *T05, v uint64) {}, func(p *T05) uint64 { return 0 })
	regType(6, allBits, true, true,
		func(p *T06, v uint64) {
			if v == 0 {
				p.P = nil
			} else {
				p.P = newObj(v)
			}
		},
		func(p *T06) uint64 { return objVal(p.P) })
	regType(7, allBits, true, false,
		func(p *T07, v uint64) {
			if v == 0 {
				p.S = nil
			} else {
				p.S = []uint64{v, ^v, objMagic}
			}
		},
		func(p *T07) uint64 {
			if p.S == nil {
				return 0
			}
			if len(p.S) != 3 || cap(p.S) != 3 || p.S[1] != ^p.S[0] || p.S[2] != objMagic {
				return BadValue
			}
			return p.S[0]
		})
	regType(8, allBits, true, false,
		func(p *T08, v uint64) {
			if v == 0 {
				p.S = ""
			} else {
				p.S = "v" + strconv.FormatUint(v, 10) + "#" + strconv.FormatUint(^v, 16)
			}
		},
		func(p *T08) uint64 { return strVal(p.S) })
	regType(9, allBits, true, false,
		func(p *T09, v uint64) {
			if v == 0 {
				p.M = nil
			} else {
				p.M = map[uint64]uint64{v: ^v, 0: objMagic}
			}
		},
		func(p *T09) uint64 {
			if p.M == nil {
				return 0
			}
			if len(p.M) != 2 || p.M[0] != objMagic {
				return BadValue
			}
			for k, x := range p.M {
				if k != 0 {
					if x != ^k {
						return BadValue
					}
					return k
				}
			}
			return BadValue
		})
	regType(10, allBits, true, true,
		func(p *T10, v uint64) {
			p.V = v
			if v == 0 {
				p.P = nil
			} else {
				p.P = newObj(v)
			}
		},
		func(p *T10) uint64 {
			if objVal(p.P) != p.V {
				return BadValue
			}
			return p.V
		})
	regType(11, allBits, true, true,
		func(p *T11, v uint64) {
			if v == 0 {
				p.Ps = [2]*Obj{}
			} else {
				p.Ps = [2]*Obj{newObj(v), newObj(v)}
			}
		},
		func(p *T11) uint64 {
			a, b := objVal(p.Ps[0]), objVal(p.Ps[1])
			if a != b {
				return BadValue
			}
			return a
		})
	regType(12, 0, false, false, func(p *T12, v uint64) {}, func(p *T12) uint64 { return 0 })
	regType(13, allBits, false, false, func(p *T13, v uint64) { p.V = v }, func(p *T13) uint64 { return p.V })
	regType(14, allBits, true, true,
		func(p *T14, v uint64) {
			if v == 0 {
				p.P = nil
			} else {
				p.P = newObj(v)
			}
		},
		func(p *T14) uint64 { return objVal(p.P) })
	regType(15, 0xffffffff, false, false, func(p *T15, v uint64) { p.V = uint32(v) }, func(p *T15) uint64 { return uint64(p.V) })
	regType(16, 0xffffffff, false, false, func(p *T16, v uint64) { p.V = uint32(v) }, func(p *T16) uint64 { return uint64(p.V) })
	regType(17, (1<<52)-1, false, false,
		func(p *T17, v uint64) { p.V = float64(v) },
		func(p *T17) uint64 {
			if p.V < 0 || p.V >= float64(1<<52) || p.V != math.Floor(p.V) {
				return BadValue
			}
			return uint64(p.V)
		})
	regType(18, 0x7fff, false, false, func(p *T18, v uint64) { p.V = int16(v) }, func(p *T18) uint64 { return uint64(uint16(p.V)) })
	regType(19, allBits, false, false,
		func(p *T19, v uint64) { p.V, p.W = v, v^0x5555 },
		func(p *T19) uint64 {
			if p.V == 0 && p.W == 0 {
				return 0
			}
			if p.W != p.V^0x5555 {
				return BadValue
			}
			return p.V
		})
	regType(20, allBits, true, false,
		func(p *T20, v uint64) {
			if v == 0 {
				p.I = nil
			} else {
				p.I = &T19{V: v, W: ^v}
			}
		},
		func(p *T20) uint64 {
			if p.I == nil {
				return 0
			}
			x, ok := p.I.(*T19)
			if !ok || x == nil || x.W != ^x.V {
				return BadValue
			}
			return x.V
		})
	regType(21, allBits, false, false,
		func(p *T21, v uint64) { p.V = [2]uint32{uint32(v), uint32(v >> 32)} },
		func(p *T21) uint64 { return uint64(p.V[0]) | uint64(p.V[1])<<32 })
	regType(22, allBits, true, false,
		func(p *T22, v uint64) {
			p.V = v
			if v == 0 {
				p.S = ""
			} else {
				p.S = "v" + strconv.FormatUint(v, 10) + "#" + strconv.FormatUint(^v, 16)
			}
		},
		func(p *T22) uint64 {
			if strVal(p.S) != p.V {
				return BadValue
			}
			return p.V
		})
	regType(23, allBits, false, false,
		func(p *T23, v uint64) { p.V, p.W = uint8(v*7), v },
		func(p *T23) uint64 {
			if p.V != uint8(p.W*7) {
				return BadValue
			}
			return p.W
		})
}

func strVal(s string) uint64 {
	if s == "" {
		return 0
	}
	if len(s) < 4 || s[0] != 'v' {
		return BadValue
	}
	i := 1
	for i < len(s) && s[i] != '#' {
		i++
	}
	if i >= len(s) {
		return BadValue
	}
	v, err := strconv.ParseUint(s[1:i], 10, 64)
	if err != nil {
		return BadValue
	}
	inv, err := strconv.ParseUint(s[i+1:], 16, 64)
	if err != nil || inv != ^v {
		return BadValue
	}
	return v
}

// Norm returns the value that is read back after writing v to a component of type t.
func Norm(t int, v uint64) uint64 { return v & U[t].Mask }

// RelTypes lists the relation component types of the universe.
var RelTypes = []int{12, 13, 14, 15}

// PadType returns the i-th dynamic padding type (registered before the
// universe to shift component IDs).
func PadType(i int) reflect.Type {
	return reflect.ArrayOf(i+1, reflect.TypeFor[uint8]())
}

// ForceGC runs n full garbage collections.
func ForceGC(n int) {
	for i := 0; i < n; i++ {
		runtime.GC()
	}
}
