package sim

import (
	"fmt"
	"github.com/mlange-42/ark/ecs"
	"unsafe"
)

// Query/mapper misuse ops for C20: access before Next, after exhaustion, after
// Close; Next after exhaustion; access to missing components. Their outcome
// (panic or not, value) is traced and compared across builds. They never
// change the world; every query they open is closed again.

// QMisuseKinds lists the sub-kinds of KQMisuse.
var QMisuseKinds = []string{"get_before_next", "get_after_end", "get_after_close", "next_after_end", "next_twice_after_end", "entity_after_end", "entity_before_next",
	"unsafe_get_missing", "unsafe_getrel_missing", "map_get_missing", "map_set_missing", "unsafe_query_get_after_end", "next_after_early_close", "mapn_set_missing", "get_after_end_zerosize"}

func (s *Sim) opQMisuse(op *Op) {
	if s.lockDepth >= 60 {
		s.skip(op)
		return
	}
	switch op.M {
	case "get_after_end_zerosize":
		// Get() after the end of a typed query whose only generic component is zero-sized:
		// nothing can be read through the pointer, so whether the call itself panics is all
		// there is to observe
		q := ecs.NewFilter1[T05](s.W).Query()
		n := 0
		for q.Next() {
			n++
		}
		pn, _ := s.call(func() { q.Get() })
		s.call(func() { q.Close() })
		s.C.Faults["qmisuse_"+op.M]++
		s.tracef("%d QMisuse %s panic=%v res=%d", s.OpIdx, op.M, pn, n)
		return
	case "mapn_set_missing":
		// MapN.Set on an entity that has the first components of the tuple but lacks a later
		// one: all builds panic; whatever the call wrote before is part of the result
		e := s.M.PickLive(op.E)
		if e == nil {
			s.skip(op)
			return
		}
		idx := -1
		for k := 0; k < len(MapTuples)-NumMapSingles; k++ {
			i := NumMapSingles + (abs(op.N)+k)%(len(MapTuples)-NumMapSingles)
			tu := MapTuples[i]
			if len(tu) >= 2 && e.Has(tu[0]) && !e.Has(tu...) && U[tu[0]].Size > 0 {
				idx = i
				break
			}
		}
		if idx < 0 {
			s.skip(op)
			return
		}
		tuple := MapTuples[idx]
		vals := make([]uint64, len(tuple))
		for i := range vals {
			vals[i] = uint64(0x5e7000) + uint64(s.OpIdx)*16 + uint64(i)
		}
		p, _ := s.call(func() { s.mapper(idx).Set(e.H, vals) })
		res := ""
		for _, t := range tuple {
			if !e.Has(t) || U[t].Size == 0 {
				continue
			}
			got := U[t].Get(s.W.Unsafe().Get(e.H, s.ids[t]))
			if got != e.Comps[t] {
				res += fmt.Sprintf(" T%02d:written", t)
				e.Comps[t] = got // the model follows the world: the difference between builds is what is checked
			} else {
				res += fmt.Sprintf(" T%02d:kept", t)
			}
		}
		s.C.Faults["qmisuse_"+op.M]++
		s.tracef("%d QMisuse %s %s panic=%v res=%s", s.OpIdx, op.M, mapperName(tuple, idx), p, res)
		return
	case "unsafe_get_missing", "unsafe_getrel_missing", "map_get_missing", "map_set_missing":
		e := s.M.PickLive(op.E)
		if e == nil {
			s.skip(op)
			return
		}
		c := -1
		for k := 0; k < NumTypes; k++ {
			t := (abs(op.N) + k) % NumTypes
			// (a zero-sized component cannot be read through a nil pointer, but it can be Set: the missing column faults)
			if !e.Has(t) && (U[t].Size > 0 || op.M == "map_set_missing") && (op.M != "unsafe_getrel_missing" || U[t].IsRel) {
				c = t
				break
			}
		}
		if c < 0 {
			s.skip(op)
			return
		}
		var res string
		p, _ := s.call(func() {
			switch op.M {
			case "unsafe_get_missing":
				ptr := s.W.Unsafe().Get(e.H, s.ids[c])
				res = fmt.Sprint(U[c].Get(ptr))
			case "unsafe_getrel_missing":
				res = fmt.Sprint(s.W.Unsafe().GetRelation(e.H, s.ids[c]))
			case "map_get_missing":
				ptrs := s.mapper(c).Get(e.H)
				res = fmt.Sprint(ptrs[0] == nil)
			case "map_set_missing":
				s.mapper(c).Set(e.H, []uint64{1})
				res = "set"
			}
		})
		s.C.Faults["qmisuse_"+op.M]++
		s.tracef("%d QMisuse %s panic=%v res=%s", s.OpIdx, op.M, p, res)
		return
	}
	if len(s.filters) == 0 {
		s.skip(op)
		return
	}
	fi := s.filters[abs(op.F)%len(s.filters)]
	f := fi.B
	if op.W == 0 && fi.Typed() {
		f = fi.A
	}
	// the generic components must include one with non-zero size, otherwise
	// dereferencing a nil *struct{} cannot fault
	hasSized := false
	for _, t := range fi.Spec.Ts {
		if U[t].Size > 0 {
			hasSized = true
		}
	}
	needGet := op.M == "get_before_next" || op.M == "get_after_end" || op.M == "get_after_close" || op.M == "unsafe_query_get_after_end"
	if needGet && !hasSized {
		s.skip(op)
		return
	}
	if (op.M == "unsafe_query_get_after_end") != (fi.Spec.Ad < 0) && op.M == "unsafe_query_get_after_end" {
		s.skip(op)
		return
	}
	var q Querier
	p, _ := s.call(func() { q = f.Query(nil) })
	if p {
		s.tracef("%d QMisuse %s query-panic", s.OpIdx, op.M)
		return
	}
	read := func() string {
		ptrs := q.Get()
		out := ""
		for i, ptr := range ptrs {
			t := fi.Spec.Ts[i]
			if U[t].Size == 0 {
				continue
			}
			// read one byte through the pointer: faults for nil
			b := *(*byte)(unsafe.Pointer(ptr))
			_ = b
			out += "r"
		}
		return out
	}
	exhaust := func() int {
		n := 0
		for q.Next() {
			n++
		}
		return n
	}
	var res string
	var pn bool
	switch op.M {
	case "get_before_next":
		pn, _ = s.call(func() { res = read() })
	case "entity_before_next":
		pn, _ = s.call(func() { res = fmt.Sprint(q.Entity()) })
	case "get_after_end", "unsafe_query_get_after_end":
		n := exhaust()
		pn, _ = s.call(func() { res = fmt.Sprint(n) + read() })
	case "entity_after_end":
		n := exhaust()
		pn, _ = s.call(func() { res = fmt.Sprint(n, q.Entity()) })
	case "next_after_end":
		n := exhaust()
		pn, _ = s.call(func() { res = fmt.Sprint(n, q.Next()) })
	case "next_twice_after_end":
		// Next after exhaustion panics; a caller that recovers and calls Next once more
		n := exhaust()
		var first, second string
		p1, _ := s.call(func() { first = fmt.Sprint(q.Next()) })
		pn, _ = s.call(func() { second = fmt.Sprint(q.Next()) })
		res = fmt.Sprint(n, " first:", p1, first, " second:", second)
		if !pn && second == "true" {
			// the query came back to life: it must at least not be positioned on an entity
			// of an unlocked world; stop using it
		}
	case "get_after_close":
		q.Next()
		q.Close()
		pn, _ = s.call(func() { res = read() })
	case "next_after_early_close":
		// two steps into the query, then Close, then Next again
		a := q.Next()
		q.Close()
		pn, _ = s.call(func() { res = fmt.Sprint(a, q.Next()) })
	default:
		s.skip(op)
	}
	s.call(func() { q.Close() })
	s.C.Faults["qmisuse_"+op.M]++
	s.tracef("%d QMisuse %s panic=%v res=%s", s.OpIdx, op.M, pn, res)
}

// TraceOf executes a history with tracing and returns the result trace.
func TraceOf(prop string, cfg Config, ops []Op) []string {
	prof := ProfileFor(prop, "quick", nil)
	cfg.WeakOn = false
	s := NewSim(cfg, Flags{Trace: true, NoOracles: true}, prof)
	defer s.Done()
	s.Run(ops)
	return s.Trace
}
