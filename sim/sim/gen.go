package sim

import (
	"encoding/json"
	"sort"
)

// Online history generator: draws the next op from the per-run PRNG stream
// while looking at the model, executes it, and records the concrete op list.
// Replays execute the recorded list and never touch a PRNG.

// Profile selects op weights, fault rates and oracle frequencies for a property.
type Profile struct {
	Name        string
	W           map[string]float64 // op kind -> weight
	StoreEvery  int
	PoolEvery   int
	LockEvery   int
	StatsEvery  int
	MapGetEvery int
	SweepEvery  int
	Scenarios   float64 // probability per op to start a directed table-lifecycle scenario
	Echo        float64 // probability that the history before a Reset is repeated right after it
	MinOps      int
	MaxOps      int
	MaxEntities int
	Observers   bool
	CbActions   []int
	MisuseKinds []string
	MoveLists   bool // draw the MoveSlices fault per run
	Tiny        bool // restrict component IDs to 64 (C20)
	NoFixedRels bool // filters never fix a non-zero target (C16 twin)
	BigBatch    bool
}

// DefaultProfile is the general-purpose profile.
func DefaultProfile() *Profile {
	return &Profile{
		Name: "default",
		W: map[string]float64{
			KNewEntity: 10, KNewBatch: 3, KNewEntities: 1, KCopyEntity: 2,
			KAdd: 8, KRemove: 6, KExchange: 5, KSet: 5, KSetRel: 4,
			KAddBatch: 2, KRemoveBatch: 2, KExchangeBatch: 2, KSetRelBatch: 1.5, KRemoveEntities: 1.5,
			KRemoveEntity: 7, KReset: 0.3, KShrink: 1, KStats: 1, KDumpLoad: 0.3,
			KNewFilter: 2, KRegister: 1.5, KUnregister: 1, KOpenQuery: 2, KNext: 4, KCloseQuery: 1.5, KSweep: 1.5,
			KNewObserver: 1.5, KRegObs: 0.7, KUnregObs: 0.7, KEmit: 1,
			KResource: 0.5, KGC: 0.7, KMisuse: 1.5, KCodec: 0.2,
		},
		MoveLists:  true,
		StoreEvery: 1, PoolEvery: 1, LockEvery: 1, StatsEvery: 7, MapGetEvery: 5,
		MinOps: 20, MaxOps: 300, MaxEntities: 120, Observers: true,
		CbActions:   []int{CbNothing, CbRead, CbQuery, CbWritePtr, CbGC, CbStructural, CbUnregSelf, CbUnregOther, CbRegNew, CbSet, CbEmit, CbStats, CbOtherWorld},
		MisuseKinds: []string{"stale", "dup_add", "missing_remove", "empty_list", "missing_target", "dead_target", "query_dead_target", "query_foreign_relation", "obs_invalid", "batch", "missing_target_chain", "obs_locked_register", "nonrel_target"},
	}
}

// Gen is the online generator.
type Gen struct {
	R       *Rng
	P       *Profile
	S       *Sim
	Ops     []Op
	types   []int
	val     uint64
	w       []float64
	kinds   []string
	faultOn map[string]bool
	scen    *scenario
	echo    []Op // ops queued for repetition after a Reset
}

// DrawConfig draws the per-run configuration (swarm style).
func DrawConfig(r *Rng, p *Profile, tiny bool) Config {
	caps := []int{1, 1, 2, 2, 3, 4, 8, 16, 64, 0}
	cfg := Config{Cap: caps[r.Intn(len(caps))], Profile: p.Name}
	if cfg.Cap > 0 && r.Chance(0.6) {
		cfg.RelCap = []int{1, 1, 2, 3, 4, 8}[r.Intn(6)]
	}
	offs := []int{0, 0, 1, 39, 40, 41, 62, 63, 64, 104, 105, 127, 128, 168, 169, 191, 192, 230, 231, 232}
	if tiny || p.Tiny {
		offs = []int{0, 0, 1, 17, 39, 40}
	}
	cfg.Offset = offs[r.Intn(len(offs))]
	if p.MoveLists {
		cfg.Move = []int{0, 0, 1, 1, 1, 2, 3}[r.Intn(7)]
	}
	if r.Chance(0.5) {
		cfg.Perm = r.Perm(NumTypes)
	}
	if !tiny && !p.Tiny && cfg.Offset <= 104 && r.Chance(0.35) {
		// the universe types are spread over several mask words; with a gap of 41..63 some pairs
		// of them get IDs that are congruent modulo 64 (the same bit in different words)
		cfg.Split = r.Range(1, NumTypes-1)
		if r.Chance(0.75) {
			cfg.Gap = r.Range(41, 63)
		} else {
			cfg.Gap = r.Range(64, 120)
		}
	}
	// universe subset the generator draws free component lists from
	n := r.Range(5, 12)
	perm := r.Perm(NumTypes)
	cfg.Types = append([]int{}, perm[:n]...)
	// always at least two relation types
	for _, rt := range []int{13, 12} {
		if !contains(cfg.Types, rt) {
			cfg.Types = append(cfg.Types, rt)
		}
	}
	return cfg
}

// NewGen creates a generator bound to a simulator.
func NewGen(r *Rng, p *Profile, s *Sim) *Gen {
	g := &Gen{R: r, P: p, S: s, types: s.Cfg.Types, val: 1, faultOn: map[string]bool{}}
	if len(g.types) == 0 {
		for i := 0; i < NumTypes; i++ {
			g.types = append(g.types, i)
		}
	}
	// swarm: each fault kind is off in about a third of the runs
	for _, k := range []string{KGC, KMisuse, "held", "callbacks", KShrink, KReset, "observers", "cache"} {
		g.faultOn[k] = !r.Chance(0.3)
	}
	g.faultOn["next_after_early_close"] = r.Chance(0.15)
	// known finding (C20): only a few histories contain it, so that it cannot hide other differences
	g.faultOn["get_after_end_zerosize"] = r.Chance(0.04)
	var kinds []string
	for k := range p.W {
		kinds = append(kinds, k)
	}
	sort.Strings(kinds) // map iteration order must not leak into the PRNG stream
	for _, k := range kinds {
		w := p.W[k]
		if w <= 0 {
			continue
		}
		// swarm: per-run weight jitter
		w *= 0.4 + 1.6*r.Float()
		switch k {
		case KGC, KMisuse, KShrink, KReset:
			if !g.faultOn[k] {
				w = 0
			}
		case KOpenQuery:
			if !g.faultOn["held"] {
				w = 0
			}
		case KNewObserver:
			if !g.faultOn["observers"] || !p.Observers {
				w = 0
			}
		case KRegister:
			if !g.faultOn["cache"] {
				w = 0
			}
		}
		g.kinds = append(g.kinds, k)
		g.w = append(g.w, w)
	}
	return g
}

func (g *Gen) nextVal() uint64 {
	g.val++
	return g.val<<8 | uint64(g.R.Intn(255)+1)
}

func (g *Gen) vals(n int) []uint64 {
	out := make([]uint64, n)
	for i := range out {
		out[i] = g.nextVal()
	}
	return out
}

func (g *Gen) someTypes(n int, excl *Ent) []int {
	var out []int
	for tries := 0; tries < 4*n+4 && len(out) < n; tries++ {
		t := g.types[g.R.Intn(len(g.types))]
		if contains(out, t) || (excl != nil && excl.Has(t)) {
			continue
		}
		out = append(out, t)
	}
	return out
}

func (g *Gen) targets(cs []int) []int {
	var ts []int
	for _, c := range cs {
		if U[c].IsRel {
			ts = append(ts, g.target())
		}
	}
	return ts
}

// target draws a target entity index: mostly among few "popular" targets so that
// tables are shared, sometimes the zero entity.
func (g *Gen) target() int {
	n := len(g.S.M.Live)
	if n == 0 || g.R.Chance(0.12) {
		return -1
	}
	if g.R.Chance(0.7) {
		return g.R.Intn(min(n, 5))
	}
	return g.R.Intn(n)
}

func (g *Gen) liveIdx() int {
	n := len(g.S.M.Live)
	if n == 0 {
		return 0
	}
	return g.R.Intn(n)
}

// findTuple searches a tuple table from a random start for a tuple satisfying pred.
func (g *Gen) findTuple(tuples [][]int, lo int, pred func(t []int) bool) int {
	n := len(tuples) - lo
	if n <= 0 {
		return -1
	}
	start := g.R.Intn(n)
	for k := 0; k < n; k++ {
		i := lo + (start+k)%n
		if len(tuples[i]) > 0 && pred(tuples[i]) {
			return i
		}
	}
	return -1
}

func (g *Gen) fn() int { return []int{FnValue, FnValue, FnFunc, FnFunc, FnNil}[g.R.Intn(5)] }

// scenario is a short directed sequence that lands faults inside in-flight
// state: a relation table is emptied, freed by Shrink (or left to cleanup),
// and then needed again for the same targets.
type scenario struct {
	comps []int
	tgt   map[int]int // relation type -> target label
	phase int
	kind  int
}

func (g *Gen) sameTable(e *Ent, sc *scenario) bool {
	if !e.Alive || len(e.Comps) != len(sc.comps) || !e.Has(sc.comps...) {
		return false
	}
	for t, l := range sc.tgt {
		if e.Tgt[t] != l {
			return false
		}
	}
	return true
}

// nextScenario returns the next op of the active scenario (ok=false when it is over).
func (g *Gen) nextScenario() (Op, bool) {
	sc := g.scen
	m := g.S.M
	switch sc.phase {
	case 0:
		// empty the table: remove (or re-target) every entity that lives in it
		for i, l := range m.Live {
			e := m.Ents[l-1]
			if g.sameTable(e, sc) {
				isTarget := false
				for _, tl := range sc.tgt {
					if tl == l {
						isTarget = true
					}
				}
				if isTarget {
					continue
				}
				if sc.kind == 1 && len(sc.tgt) > 0 {
					var cs []int
					for t := range sc.tgt {
						cs = append(cs, t)
					}
					sortInts(cs)
					ts := make([]int, len(cs))
					for k := range ts {
						ts[k] = (i + 1 + k) % len(m.Live)
					}
					return Op{K: KSetRel, E: i, P: PUnsafe, Cs: cs[:1], Ts: ts[:1], RS: RSID}, true
				}
				return Op{K: KRemoveEntity, E: i}, true
			}
		}
		sc.phase = 1
		fallthrough
	case 1:
		sc.phase = 2
		if sc.kind == 2 {
			return Op{K: KGC}, true
		}
		return Op{K: KShrink, N: -1}, true
	case 2:
		sc.phase = 3
		// need the table again, for the same targets
		var ts []int
		for _, c := range sc.comps {
			if !U[c].IsRel {
				continue
			}
			l := sc.tgt[c]
			idx := -1
			if l != 0 {
				for i, x := range m.Live {
					if x == l {
						idx = i
					}
				}
			}
			ts = append(ts, idx)
		}
		return Op{K: KNewEntity, P: PUnsafe, Cs: sc.comps, Vs: g.vals(len(sc.comps)), Ts: ts, RS: RSID}, true
	case 3:
		sc.phase = 4
		return Op{K: KSweep}, true
	case 10:
		// filter scenario: use a filter for Batch(rel), then hold several of its queries
		// with different per-query targets open at once, then run them to the end
		sc.phase = 11
		return Op{K: KBatchUse, F: sc.kind, QR: []RelSpec{{T: sc.comps[0], Tgt: 0}}}, true
	case 11:
		sc.phase = 12
		return Op{K: KOpenQuery, F: sc.kind, W: 0, QR: []RelSpec{{T: sc.comps[0], Tgt: g.R.Intn(4)}}, N: 2 + g.R.Intn(2)}, true
	case 12, 13, 14:
		sc.phase++
		return Op{K: KNext, Q: 1000 - sc.phase, N: 19}, true
	}
	g.scen = nil
	return Op{}, false
}

func sortInts(a []int) {
	for i := 1; i < len(a); i++ {
		for j := i; j > 0 && a[j] < a[j-1]; j-- {
			a[j], a[j-1] = a[j-1], a[j]
		}
	}
}

// Next draws the next op.
func (g *Gen) Next() Op {
	if len(g.echo) > 0 {
		op := g.echo[0]
		g.echo = g.echo[1:]
		return op
	}
	op := g.next()
	if op.K == KReset && g.P.Echo > 0 && g.R.Chance(g.P.Echo) {
		// The history since the previous Reset once more on the reset world: the same handles,
		// archetypes and targets meet whatever the Reset left behind.
		start := 0
		for i := len(g.Ops) - 1; i >= 0; i-- {
			if g.Ops[i].K == KReset {
				start = i + 1
				break
			}
		}
		n := min(len(g.Ops)-start, 30+g.R.Intn(60))
		if b, err := json.Marshal(g.Ops[start : start+n]); err == nil && n > 0 {
			var cp []Op
			if json.Unmarshal(b, &cp) == nil {
				g.echo = cp
				g.S.C.Faults["history_repeated_after_reset"]++
			}
		}
	}
	return op
}

func (g *Gen) next() Op {
	m := g.S.M
	if g.scen != nil && (!g.S.locked() || g.scen.phase >= 10) {
		if op, ok := g.nextScenario(); ok {
			return op
		}
	}
	if g.P.Scenarios > 0 && g.scen == nil && len(g.S.filters) > 0 && g.S.lockDepth < 50 && g.R.Chance(g.P.Scenarios/2) {
		// filter scenario on a typed filter that can be partitioned by a relation component
		start := g.R.Intn(len(g.S.filters))
		for i := range g.S.filters {
			fidx := (start + i) % len(g.S.filters)
			fi := g.S.filters[fidx]
			if !fi.Typed() {
				continue
			}
			for _, t := range relTypesOf(fi.Spec.Required()) {
				fixed := false
				for _, r := range fi.Rels {
					if r.T == t {
						fixed = true
					}
				}
				if !fixed {
					g.scen = &scenario{comps: []int{t}, kind: fidx, phase: 10}
					break
				}
			}
			if g.scen != nil {
				break
			}
		}
		if g.scen != nil {
			if op, ok := g.nextScenario(); ok {
				return op
			}
		}
	}
	if g.P.Scenarios > 0 && g.scen == nil && len(m.Live) > 2 && !g.S.locked() && g.R.Chance(g.P.Scenarios) {
		e := m.PickLive(g.liveIdx())
		if e != nil && len(e.Tgt) > 0 {
			sc := &scenario{comps: e.Types(), tgt: map[int]int{}, kind: g.R.Intn(3)}
			for t, l := range e.Tgt {
				sc.tgt[t] = l
			}
			g.scen = sc
			if op, ok := g.nextScenario(); ok {
				return op
			}
		}
	}
	if len(m.Live) > g.P.MaxEntities {
		if g.R.Chance(0.5) {
			return Op{K: KRemoveEntity, E: g.liveIdx()}
		}
	}
	k := g.kinds[g.R.Weighted(g.w)]
	switch k {
	case KNewEntity:
		return g.genNewEntity()
	case KNewBatch:
		idx := g.R.Intn(len(MapTuples))
		n := g.R.Range(1, 12)
		if g.R.Chance(0.15) || g.P.BigBatch {
			n = g.R.Range(40, 69)
		}
		return Op{K: KNewBatch, Ad: idx, N: n - 1, Vs: g.vals(len(MapTuples[idx])), Ts: g.targets(MapTuples[idx]), Fn: g.fn(), RS: g.R.Intn(3)}
	case KNewEntities:
		return Op{K: KNewEntities, N: g.R.Range(0, 15), Fn: []int{FnFunc, FnNil}[g.R.Intn(2)]}
	case KCopyEntity:
		return Op{K: KCopyEntity, E: g.liveIdx()}
	case KAdd:
		return g.genAdd()
	case KRemove:
		return g.genRemove()
	case KExchange:
		return g.genExchange()
	case KSet:
		return g.genSet()
	case KSetRel:
		return g.genSetRel()
	case KAddBatch, KRemoveBatch, KExchangeBatch, KSetRelBatch, KRemoveEntities:
		return g.genBatch(k)
	case KRemoveEntity:
		// bias towards relation targets
		if g.R.Chance(0.3) && len(m.Live) > 0 {
			return Op{K: KRemoveEntity, E: g.R.Intn(min(len(m.Live), 5))}
		}
		return Op{K: KRemoveEntity, E: g.liveIdx()}
	case KReset:
		return Op{K: KReset}
	case KShrink:
		return g.genShrink()
	case KStats:
		return Op{K: KStats}
	case KDumpLoad:
		return Op{K: KDumpLoad, N: g.R.Intn(1000)}
	case KNewFilter:
		return g.genFilter()
	case KRegister:
		return Op{K: KRegister, F: g.R.Intn(MaxFilters)}
	case KUnregister:
		return Op{K: KUnregister, F: g.R.Intn(MaxFilters)}
	case KOpenQuery:
		n := 0
		if g.P.Name == "C07" && g.R.Chance(0.04) {
			n = 66 // burst up to the capacity of 64 and beyond
		} else if g.R.Chance(0.15) {
			n = g.R.Range(2, 3) // several open queries of one filter with different per-query targets
		}
		return Op{K: KOpenQuery, F: g.R.Intn(MaxFilters), W: g.R.Intn(2), QR: g.queryRels(), N: n}
	case KNext:
		op := Op{K: KNext, Q: g.R.Intn(64), N: g.R.Intn(12)}
		if g.R.Chance(0.3) {
			op.Fn = FnFunc // write through the query's pointers
			op.Vs = g.vals(8)
		}
		return op
	case KCloseQuery:
		if g.R.Chance(0.2) {
			return Op{K: KCloseQuery, Q: g.R.Intn(64), M: "again"}
		}
		return Op{K: KCloseQuery, Q: g.R.Intn(64)}
	case KSweep:
		return Op{K: KSweep, QR: g.queryRels()}
	case KNewObserver:
		return g.genObserver()
	case KRegObs:
		return Op{K: KRegObs, O: g.R.Intn(MaxObservers)}
	case KUnregObs:
		return Op{K: KUnregObs, O: g.R.Intn(MaxObservers)}
	case KEmit:
		e := g.liveIdx()
		if g.R.Chance(0.15) {
			e = -1
		}
		var cs []int
		if ent := m.PickLive(e); e >= 0 && ent != nil && g.R.Chance(0.7) {
			ts := ent.Types()
			for _, t := range ts {
				if g.R.Chance(0.4) && len(cs) < 3 {
					cs = append(cs, t)
				}
			}
		}
		return Op{K: KEmit, E: e, X: uint64(g.R.Intn(NumCustom)), Cs: cs}
	case KResource:
		return Op{K: KResource, N: g.R.Intn(4), M: []string{"add", "remove"}[g.R.Intn(2)], X: g.nextVal()}
	case KGC:
		return Op{K: KGC, N: g.R.Intn(3)}
	case KMisuse:
		return g.genMisuse()
	case KRegistry:
		m := []string{"fill", "fill", "overflow", "locked", "stable", "stable", "use", "use", "res_fill", "res_fill"}[g.R.Intn(10)]
		n := g.R.Intn(1000)
		if m == "fill" && g.R.Chance(0.3) {
			n = -1 // fill up to the maximum
		}
		return Op{K: KRegistry, M: m, N: n}
	case KBigBatch:
		return Op{K: KBigBatch, N: g.R.Intn(1000), E: g.R.Intn(1000)}
	case KMatrix:
		return Op{K: KMatrix, E: g.R.Intn(1000)}
	case KQMisuse:
		kinds := QMisuseKinds // incl. Next after an early Close (was a known finding, repaired)
		m := kinds[g.R.Intn(len(kinds))]
		if m == "get_after_end_zerosize" && !g.faultOn[m] {
			m = "get_after_end"
		}
		return Op{K: KQMisuse, M: m, E: g.R.Intn(1000), N: g.R.Intn(1000), F: g.R.Intn(MaxFilters), W: g.R.Intn(2)}
	case KCodec:
		op := Op{K: KCodec, E: g.R.Intn(100000), X: g.R.Uint64()}
		if g.R.Chance(0.5) {
			op.E = -1
		}
		n := g.R.Intn(17)
		op.B = make([]byte, n)
		for i := range op.B {
			op.B[i] = byte(g.R.Intn(256))
		}
		return op
	}
	bug("generator: unhandled kind %s", k)
	return Op{}
}

func min(a, b int) int {
	if a < b {
		return a
	}
	return b
}

func (g *Gen) genNewEntity() Op {
	switch g.R.Intn(10) {
	case 0:
		return Op{K: KNewEntity, P: PWorld}
	case 1, 2, 3, 4:
		cs := g.someTypes(g.R.Range(0, 4), nil)
		return Op{K: KNewEntity, P: PUnsafe, Cs: cs, Vs: g.vals(len(cs)), Ts: g.targets(cs), Fn: []int{FnValue, FnNil}[g.R.Intn(2)], RS: 1 + g.R.Intn(2)}
	default:
		idx := g.R.Intn(len(MapTuples))
		if g.R.Chance(0.5) {
			// prefer tuples inside the run's type subset
			if i := g.findTuple(MapTuples, 0, func(t []int) bool { return subset(t, g.types) }); i >= 0 {
				idx = i
			}
		}
		cs := MapTuples[idx]
		return Op{K: KNewEntity, P: PMap, Ad: idx, Vs: g.vals(len(cs)), Ts: g.targets(cs), Fn: g.fn(), RS: g.R.Intn(3)}
	}
}

func (g *Gen) genAdd() Op {
	i := g.liveIdx()
	e := g.S.M.PickLive(i)
	if e == nil {
		return g.genNewEntity()
	}
	switch g.R.Intn(3) {
	case 0:
		if idx := g.findTuple(MapTuples, 0, func(t []int) bool { return !e.HasAny(t...) && len(t) <= 4 }); idx >= 0 {
			cs := MapTuples[idx]
			return Op{K: KAdd, E: i, P: PMap, Ad: idx, Vs: g.vals(len(cs)), Ts: g.targets(cs), Fn: g.fn(), RS: g.R.Intn(3)}
		}
	case 1:
		if idx := g.findTuple(ExTuples, 0, func(t []int) bool { return !e.HasAny(t...) && len(t) <= 4 }); idx >= 0 {
			cs := ExTuples[idx]
			return Op{K: KAdd, E: i, P: PEx, Ad: idx, Vs: g.vals(len(cs)), Ts: g.targets(cs), Fn: g.fn(), RS: g.R.Intn(3)}
		}
	}
	cs := g.someTypes(g.R.Range(1, 3), e)
	return Op{K: KAdd, E: i, P: PUnsafe, Cs: cs, Vs: g.vals(len(cs)), Ts: g.targets(cs), Fn: []int{FnValue, FnNil}[g.R.Intn(2)], RS: 1 + g.R.Intn(2)}
}

func (g *Gen) subsetOf(e *Ent, maxN int) []int {
	ts := e.Types()
	if len(ts) == 0 {
		return nil
	}
	p := g.R.Perm(len(ts))
	n := g.R.Range(1, min(maxN, len(ts)))
	var out []int
	for _, i := range p[:n] {
		out = append(out, ts[i])
	}
	return out
}

func (g *Gen) genRemove() Op {
	i := g.liveIdx()
	e := g.S.M.PickLive(i)
	if e == nil || len(e.Comps) == 0 {
		return g.genAdd()
	}
	switch g.R.Intn(3) {
	case 0:
		if idx := g.findTuple(MapTuples, 0, func(t []int) bool { return e.Has(t...) }); idx >= 0 {
			return Op{K: KRemove, E: i, P: PMap, Ad: idx}
		}
	case 1:
		return Op{K: KRemove, E: i, P: PEx, Ad: g.R.Intn(len(ExTuples)), Cs: g.subsetOf(e, 3)}
	}
	return Op{K: KRemove, E: i, P: PUnsafe, Cs: g.subsetOf(e, 3)}
}

func (g *Gen) genExchange() Op {
	i := g.liveIdx()
	e := g.S.M.PickLive(i)
	if e == nil {
		return g.genNewEntity()
	}
	var rm []int
	if len(e.Comps) > 0 && g.R.Chance(0.85) {
		rm = g.subsetOf(e, 2)
	}
	if g.R.Chance(0.5) {
		if idx := g.findTuple(ExTuples, 0, func(t []int) bool { return !e.HasAny(t...) && len(t) <= 4 }); idx >= 0 {
			cs := ExTuples[idx]
			return Op{K: KExchange, E: i, P: PEx, Ad: idx, Rm: rm, Vs: g.vals(len(cs)), Ts: g.targets(cs), Fn: g.fn(), RS: g.R.Intn(3)}
		}
	}
	cs := g.someTypes(g.R.Range(0, 2), e)
	if len(cs) == 0 && len(rm) == 0 {
		cs = g.someTypes(1, e)
	}
	return Op{K: KExchange, E: i, P: PUnsafe, Cs: cs, Rm: rm, Vs: g.vals(len(cs)), Ts: g.targets(cs), Fn: []int{FnValue, FnNil}[g.R.Intn(2)], RS: 1 + g.R.Intn(2)}
}

func (g *Gen) genSet() Op {
	i := g.liveIdx()
	e := g.S.M.PickLive(i)
	if e == nil || len(e.Comps) == 0 {
		return g.genAdd()
	}
	if g.R.Chance(0.6) {
		if idx := g.findTuple(MapTuples, 0, func(t []int) bool { return e.Has(t...) }); idx >= 0 {
			return Op{K: KSet, E: i, P: []int{PMap, PMap, PEx}[g.R.Intn(3)], Ad: idx, Vs: g.vals(len(MapTuples[idx]))}
		}
	}
	cs := g.subsetOf(e, 3)
	return Op{K: KSet, E: i, P: PUnsafe, Cs: cs, Vs: g.vals(len(cs))}
}

func (g *Gen) genSetRel() Op {
	m := g.S.M
	var cands []int
	for k, l := range m.Live {
		if len(m.Ents[l-1].Tgt) > 0 {
			cands = append(cands, k)
		}
	}
	if len(cands) == 0 {
		return g.genNewEntity()
	}
	i := cands[g.R.Intn(len(cands))]
	e := m.PickLive(i)
	rel := relTypesOf(e.Types())
	if g.R.Chance(0.5) {
		if idx := g.findTuple(MapTuples, 0, func(t []int) bool { return intersects(relTypesOf(t), rel) }); idx >= 0 {
			n := len(relTypesOf(MapTuples[idx]))
			ts := make([]int, n)
			for k := range ts {
				ts[k] = g.target()
			}
			return Op{K: KSetRel, E: i, P: PMap, Ad: idx, Ts: ts, RS: g.R.Intn(3)}
		}
	}
	cs := []int{rel[g.R.Intn(len(rel))]}
	if len(rel) > 1 && g.R.Chance(0.4) {
		cs = rel
	}
	ts := make([]int, len(cs))
	for k := range ts {
		ts[k] = g.target()
	}
	return Op{K: KSetRel, E: i, P: PUnsafe, Cs: cs, Ts: ts, RS: 1 + g.R.Intn(2)}
}

func (g *Gen) queryRels() []RelSpec {
	if g.R.Chance(0.6) {
		return nil
	}
	var out []RelSpec
	for _, r := range RelTypes {
		if g.R.Chance(0.5) {
			t := g.target()
			if g.R.Chance(0.1) {
				t = -100 - g.R.Intn(50) // a removed entity (ID-based queries only)
			}
			out = append(out, RelSpec{T: r, Tgt: t})
		}
	}
	return out
}

func (g *Gen) genFilter() Op {
	m := g.S.M
	spec := FilterSpec{Ad: -1}
	var base *Ent
	if len(m.Live) > 0 && g.R.Chance(0.7) {
		base = m.PickLive(g.liveIdx())
	}
	typed := g.R.Chance(0.8)
	if typed {
		idx := -1
		if g.P.Name == "C14" && g.R.Chance(0.6) {
			idx = g.R.Intn(len(FilterTuples)) // uniform over all arities
		}
		if idx < 0 && base != nil {
			idx = g.findTuple(FilterTuples, 0, func(t []int) bool { return base.Has(t...) })
		}
		if idx < 0 {
			if g.R.Chance(0.25) {
				idx = 0 // Filter0
			} else {
				idx = g.R.Intn(len(FilterTuples))
			}
		}
		spec.Ad = idx
		spec.Ts = FilterTuples[idx]
	} else {
		if base != nil && len(base.Comps) > 0 {
			spec.Ts = g.subsetOf(base, 3)
		} else {
			spec.Ts = g.someTypes(g.R.Range(0, 2), nil)
		}
	}
	if g.R.Chance(0.4) {
		if base != nil && len(base.Comps) > 0 {
			spec.With = g.subsetOf(base, 2)
		} else {
			spec.With = g.someTypes(1, nil)
		}
	}
	if g.R.Chance(0.15) {
		spec.Excl = true
		spec.XFirst = len(spec.With) > 0 && g.R.Chance(0.5)
	} else if g.R.Chance(0.4) {
		spec.Without = g.someTypes(g.R.Range(1, 2), nil)
	}
	for _, r := range relTypesOf(append(append([]int{}, spec.Ts...), spec.With...)) {
		if g.R.Chance(0.5) {
			t := g.target()
			if g.P.NoFixedRels {
				t = -1
			}
			spec.Rels = append(spec.Rels, RelSpec{T: r, Tgt: t})
		}
	}
	return Op{K: KNewFilter, Spec: &spec}
}

func (g *Gen) genObserver() Op {
	spec := ObsSpec{Ad: -1}
	ev := g.R.Intn(EvCustom0 + NumCustom)
	if g.R.Chance(0.8) {
		ev = g.R.Intn(EvCustom0)
	}
	if n := len(g.S.observers); n > 0 && g.R.Chance(0.6) {
		// cluster observers on few event types: their early-out unions interact
		ev = g.S.observers[g.R.Intn(n)].Spec.Ev
	}
	spec.Ev = ev
	rel := ev == EvAddRel || ev == EvRemoveRel
	if g.R.Chance(0.45) {
		idx := g.findTuple(ObsTuples, 0, func(t []int) bool {
			if rel {
				for _, x := range t {
					if !U[x].IsRel {
						return false
					}
				}
			}
			return true
		})
		if idx >= 0 {
			spec.Ad = idx
		}
	}
	if g.R.Chance(0.5) {
		if rel {
			spec.For = []int{RelTypes[g.R.Intn(len(RelTypes))]}
			if g.R.Chance(0.3) {
				spec.For = append(spec.For, RelTypes[g.R.Intn(len(RelTypes))])
			}
		} else {
			spec.For = g.someTypes(g.R.Range(1, 3), nil)
		}
	}
	if g.R.Chance(0.35) {
		spec.With = g.someTypes(g.R.Range(1, 2), nil)
	}
	if g.R.Chance(0.1) {
		spec.Excl = true
	} else if g.R.Chance(0.3) {
		spec.Without = g.someTypes(g.R.Range(1, 2), nil)
	}
	var scr []int
	if g.faultOn["callbacks"] && len(g.P.CbActions) > 0 {
		n := g.R.Range(1, 4)
		for i := 0; i < n; i++ {
			a := g.P.CbActions[g.R.Intn(len(g.P.CbActions))]
			if g.R.Chance(0.4) {
				a = CbNothing
			}
			scr = append(scr, a)
		}
	}
	reg := 0
	if g.R.Chance(0.2) {
		reg = 1
	}
	return Op{K: KNewObserver, Obs: &spec, Scr: scr, N: reg}
}

func (g *Gen) genShrink() Op {
	switch g.R.Intn(5) {
	case 0:
		return Op{K: KShrink, N: -1}
	case 1:
		return Op{K: KShrink, N: 0}
	case 2:
		sk := make([]int, g.R.Range(0, 6))
		for i := range sk {
			if g.R.Chance(0.5) {
				sk[i] = g.R.Range(1, 120)
			}
		}
		return Op{K: KShrink, M: "converge", N: g.R.Intn(50), Sk: sk}
	default:
		sk := make([]int, g.R.Range(0, 8))
		for i := range sk {
			if g.R.Chance(0.4) {
				sk[i] = g.R.Range(1, 90)
			}
		}
		return Op{K: KShrink, N: g.R.Range(5, 60), Sk: sk}
	}
}

func (g *Gen) genMisuse() Op {
	kinds := g.P.MisuseKinds
	if len(kinds) == 0 {
		return Op{K: KGC}
	}
	k := kinds[g.R.Intn(len(kinds))]
	op := Op{K: KMisuse, M: k, E: g.R.Intn(1000), N: g.R.Intn(1000), X: uint64(g.R.Intn(1000)), P: []int{PUnsafe, PMap, PEx}[g.R.Intn(3)], F: g.R.Intn(MaxFilters), W: g.R.Intn(2)}
	if op.P == PMap {
		op.Ad = g.R.Intn(len(MapTuples))
	} else if op.P == PEx {
		op.Ad = g.R.Intn(len(ExTuples))
	}
	return op
}

func (g *Gen) genBatch(k string) Op {
	s := g.S
	if len(s.filters) == 0 {
		return g.genFilter()
	}
	// pick a typed filter
	f := -1
	start := g.R.Intn(len(s.filters))
	for i := range s.filters {
		j := (start + i) % len(s.filters)
		if s.filters[j].Typed() {
			f = j
			break
		}
	}
	if f < 0 {
		return g.genFilter()
	}
	fi := s.filters[f]
	op := Op{K: k, F: f, W: g.R.Intn(2), Fn: g.fn(), RS: g.R.Intn(3)}
	if g.R.Chance(0.25) {
		op.QR = g.queryRels()
	}
	extra, _ := s.queryRels(fi, op.QR, fi.A)
	sel := s.M.Select(&fi.Spec, append(append([]relPair{}, fi.Rels...), extra...))
	noneHas := func(t []int) bool {
		for _, l := range sel {
			if s.M.Get(l).HasAny(t...) {
				return false
			}
		}
		return len(t) <= 5
	}
	allHave := func(t []int) bool {
		for _, l := range sel {
			if !s.M.Get(l).Has(t...) {
				return false
			}
		}
		return true
	}
	req := fi.Spec.Required()
	switch k {
	case KAddBatch:
		if g.R.Chance(0.5) {
			if idx := g.findTuple(MapTuples, 0, noneHas); idx >= 0 {
				op.P, op.Ad = PMap, idx
				op.Vs, op.Ts = g.vals(len(MapTuples[idx])), g.targets(MapTuples[idx])
				return op
			}
		}
		if idx := g.findTuple(ExTuples, 0, noneHas); idx >= 0 {
			op.P, op.Ad = PEx, idx
			op.Vs, op.Ts = g.vals(len(ExTuples[idx])), g.targets(ExTuples[idx])
			return op
		}
		return g.genFilter()
	case KRemoveBatch:
		if op.Fn == FnFunc {
			op.Fn = FnValue
		}
		if g.R.Chance(0.5) {
			if idx := g.findTuple(MapTuples, 0, func(t []int) bool { return subset(t, req) || (len(sel) > 0 && allHave(t)) }); idx >= 0 {
				op.P, op.Ad = PMap, idx
				return op
			}
		}
		if len(req) == 0 {
			return g.genFilter()
		}
		op.P, op.Ad = PEx, g.R.Intn(len(ExTuples))
		op.Rm = []int{req[g.R.Intn(len(req))]}
		return op
	case KExchangeBatch:
		idx := g.findTuple(ExTuples, 0, noneHas)
		if idx < 0 {
			return g.genFilter()
		}
		op.P, op.Ad = PEx, idx
		op.Vs, op.Ts = g.vals(len(ExTuples[idx])), g.targets(ExTuples[idx])
		if len(req) > 0 && g.R.Chance(0.85) {
			op.Rm = []int{req[g.R.Intn(len(req))]}
		}
		return op
	case KSetRelBatch:
		if op.Fn == FnFunc {
			op.Fn = FnValue
		}
		idx := g.findTuple(MapTuples, 0, func(t []int) bool {
			r := relTypesOf(t)
			return len(r) > 0 && (subset(r, req) || (len(sel) > 0 && allHave(r)))
		})
		if idx < 0 {
			return g.genFilter()
		}
		op.P, op.Ad = PMap, idx
		n := len(relTypesOf(MapTuples[idx]))
		for i := 0; i < n; i++ {
			op.Ts = append(op.Ts, g.target())
		}
		return op
	default: // RemoveEntities
		if op.Fn == FnFunc {
			op.Fn = FnValue
		}
		return op
	}
}

// GenFilterOp draws a NewFilter op (used by engine B to draw filter specs).
func (g *Gen) GenFilterOp() Op { return g.genFilter() }
