package sim

import (
	"fmt"
	"unsafe"

	"github.com/mlange-42/ark/ecs"
)

// Misuse faults (C10): calls that violate a documented precondition. Each must
// panic; the per-op oracles that follow verify that the world is unchanged.

// surface is one checked entry point that takes an entity handle.
type surface struct {
	name string
	call func(s *Sim, h ecs.Entity)
}

// staleSurfaces lists every checked entry point for stale handles. Mapper and
// exchanger surfaces are parameterised by an adapter index.
func staleSurfacesWorld() []surface {
	return []surface{
		{"World.RemoveEntity", func(s *Sim, h ecs.Entity) { s.W.RemoveEntity(h) }},
		{"World.CopyEntity", func(s *Sim, h ecs.Entity) { s.W.CopyEntity(h) }},
		{"Unsafe.Get", func(s *Sim, h ecs.Entity) { s.W.Unsafe().Get(h, s.ids[2]) }},
		{"Unsafe.Has", func(s *Sim, h ecs.Entity) { s.W.Unsafe().Has(h, s.ids[2]) }},
		{"Unsafe.GetRelation", func(s *Sim, h ecs.Entity) { s.W.Unsafe().GetRelation(h, s.ids[13]) }},
		{"Unsafe.SetRelations", func(s *Sim, h ecs.Entity) {
			s.W.Unsafe().SetRelations(h, ecs.RelID(s.ids[13], ecs.Entity{}))
		}},
		{"Unsafe.Add", func(s *Sim, h ecs.Entity) { s.W.Unsafe().Add(h, s.ids[3]) }},
		{"Unsafe.AddRel", func(s *Sim, h ecs.Entity) {
			s.W.Unsafe().AddRel(h, []ecs.ID{s.ids[15]}, ecs.RelID(s.ids[15], ecs.Entity{}))
		}},
		{"Unsafe.Remove", func(s *Sim, h ecs.Entity) { s.W.Unsafe().Remove(h, s.ids[2]) }},
		{"Unsafe.Exchange", func(s *Sim, h ecs.Entity) { s.W.Unsafe().Exchange(h, []ecs.ID{s.ids[3]}, []ecs.ID{s.ids[2]}) }},
		{"Unsafe.IDs", func(s *Sim, h ecs.Entity) { s.W.Unsafe().IDs(h) }},
		{"Event.Emit", func(s *Sim, h ecs.Entity) {
			// Emit checks the entity only if somebody listens: an observer of an event type of its own
			o := ecs.Observe(s.spareEv).Do(func(ecs.Entity) {})
			o.Register(s.W)
			defer o.Unregister(s.W)
			s.W.Event(s.spareEv).Emit(h)
		}},
	}
}

func zeroRels(s *Sim, tuple []int) []ecs.Relation {
	var rels []ecs.Relation
	for i, t := range tuple {
		if U[t].IsRel {
			rels = append(rels, ecs.RelIdx(i, ecs.Entity{}))
		}
	}
	singleTargets = singleTargets[:0]
	for _, t := range tuple {
		if U[t].IsRel {
			singleTargets = append(singleTargets, ecs.Entity{})
		}
	}
	return rels
}

func mapperSurfaces(idx int) []surface {
	tuple := MapTuples[idx]
	name := mapperName(tuple, idx)
	vals := make([]uint64, len(tuple))
	for i := range vals {
		vals[i] = uint64(i + 1)
	}
	noop := func(_ ecs.Entity, _ []unsafe.Pointer) {}
	out := []surface{
		{name + ".Get", func(s *Sim, h ecs.Entity) { s.mapper(idx).Get(h) }},
		{name + ".HasAll", func(s *Sim, h ecs.Entity) { s.mapper(idx).HasAll(h) }},
		{name + ".Add", func(s *Sim, h ecs.Entity) { s.mapper(idx).Add(h, vals, zeroRels(s, tuple)) }},
		{name + ".AddFn", func(s *Sim, h ecs.Entity) { s.mapper(idx).AddFn(h, noop, zeroRels(s, tuple)) }},
		{name + ".Set", func(s *Sim, h ecs.Entity) { s.mapper(idx).Set(h, vals) }},
		{name + ".Remove", func(s *Sim, h ecs.Entity) { s.mapper(idx).Remove(h) }},
	}
	if len(relTypesOf(tuple)) > 0 {
		ri := 0
		for i, t := range tuple {
			if U[t].IsRel {
				ri = i
				break
			}
		}
		out = append(out,
			surface{name + ".GetRelation", func(s *Sim, h ecs.Entity) { s.mapper(idx).GetRelation(h, ri) }},
			surface{name + ".SetRelations", func(s *Sim, h ecs.Entity) { s.mapper(idx).SetRelations(h, zeroRels(s, tuple)) }},
		)
	}
	return out
}

func exchangerSurfaces(idx int) []surface {
	tuple := ExTuples[idx]
	name := fmt.Sprintf("Exchange%d", len(tuple))
	vals := make([]uint64, len(tuple))
	noop := func(_ ecs.Entity, _ []unsafe.Pointer) {}
	rm := []int{}
	for t := 0; t < NumTypes && len(rm) < 1; t++ {
		if !contains(tuple, t) {
			rm = append(rm, t)
		}
	}
	return []surface{
		{name + ".Add", func(s *Sim, h ecs.Entity) { s.exchanger(idx, rm).Add(h, vals, zeroRels(s, tuple)) }},
		{name + ".AddFn", func(s *Sim, h ecs.Entity) { s.exchanger(idx, rm).AddFn(h, noop, zeroRels(s, tuple)) }},
		{name + ".Remove", func(s *Sim, h ecs.Entity) { s.exchanger(idx, rm).Remove(h) }},
		{name + ".Exchange", func(s *Sim, h ecs.Entity) { s.exchanger(idx, rm).Exchange(h, vals, zeroRels(s, tuple)) }},
		{name + ".ExchangeFn", func(s *Sim, h ecs.Entity) { s.exchanger(idx, rm).ExchangeFn(h, noop, zeroRels(s, tuple)) }},
	}
}

// staleHandle picks a stale handle of the requested kind:
// 0 = removed and never reused, 1 = removed with a newer incarnation alive, 2 = zero entity.
func (s *Sim) staleHandle(kind int, idx int) (ecs.Entity, string, bool) {
	switch kind % 3 {
	case 2:
		return ecs.Entity{}, "zero", true
	case 1:
		liveIDs := map[uint32]bool{}
		for _, l := range s.M.Live {
			liveIDs[s.M.Ents[l-1].H.ID()] = true
		}
		var cands []int
		for _, l := range s.M.Dead {
			if liveIDs[s.M.Ents[l-1].H.ID()] {
				cands = append(cands, l)
			}
		}
		if len(cands) > 0 {
			return s.M.Get(cands[abs(idx)%len(cands)]).H, "recycled", true
		}
		fallthrough
	default:
		e := s.M.PickDead(idx)
		if e == nil {
			return ecs.Entity{}, "", false
		}
		liveIDs := false
		for _, l := range s.M.Live {
			if s.M.Ents[l-1].H.ID() == e.H.ID() {
				liveIDs = true
			}
		}
		if liveIDs {
			return e.H, "recycled", true
		}
		return e.H, "dead", true
	}
}

func (s *Sim) expectPanic(name, kind string, fn func()) {
	s.C.Checks["pre.panics"]++
	s.C.Faults["misuse_"+kind]++
	s.C.APICalls["misuse:"+name]++
	p, _ := s.call(fn)
	if !p {
		s.violate("C10", "pre.panics", name+"/"+kind, false, "%s with precondition violation %q did not panic", name, kind)
	}
	// pre.unchanged (cheap part; the full model comparison follows every op): lock state and entity count
	if got := s.W.IsLocked(); got != s.locked() {
		s.violate("C10", "pre.unchanged", name+"/"+kind+"/lock", true, "after recovering from %s (%s) IsLocked() = %v with %d queries open", name, kind, got, s.lockDepth)
		return
	}
	if used := s.W.Stats().Entities.Used; used != len(s.M.Live) {
		s.violate("C10", "pre.unchanged", name+"/"+kind+"/entities", true, "after recovering from %s (%s) the world reports %d entities, expected %d", name, kind, used, len(s.M.Live))
	}
}

func (s *Sim) opMisuse(op *Op) {
	switch op.M {
	case "stale":
		h, kind, ok := s.staleHandle(op.N, op.E)
		if !ok {
			s.skip(op)
			return
		}
		var sf []surface
		switch op.P {
		case PMap:
			sf = mapperSurfaces(op.Ad % len(MapTuples))
		case PEx:
			sf = exchangerSurfaces(op.Ad % len(ExTuples))
		default:
			sf = staleSurfacesWorld()
		}
		su := sf[abs(int(op.X))%len(sf)]
		if su.call == nil || (su.name == "Event.Emit" && kind == "zero") {
			// (an event without entity is emitted with the zero entity)
			s.skip(op)
			return
		}
		if s.locked() && !readOnlySurface(su.name) {
			// would panic for the lock as well; not informative
			s.skip(op)
			return
		}
		s.expectPanic(su.name, kind, func() { su.call(s, h) })
	case "dup_add":
		e := s.M.PickLive(op.E)
		if e == nil || len(e.Comps) == 0 || s.locked() {
			s.skip(op)
			return
		}
		ts := e.Types()
		c := ts[abs(op.N)%len(ts)]
		switch op.P {
		case PMap:
			// a mapper whose tuple contains a component the entity has
			idx := s.findTuple(MapTuples, e, true, abs(op.Ad))
			if idx < 0 {
				s.skip(op)
				return
			}
			tuple := MapTuples[idx]
			s.expectPanic(mapperName(tuple, idx)+".Add", "dup_add", func() {
				s.mapper(idx).Add(e.H, make([]uint64, len(tuple)), zeroRels(s, tuple))
			})
		case PEx:
			idx := s.findTuple(ExTuples, e, true, abs(op.Ad))
			if idx < 0 {
				s.skip(op)
				return
			}
			tuple := ExTuples[idx]
			s.expectPanic(fmt.Sprintf("Exchange%d.Add", len(tuple)), "dup_add", func() {
				s.exchanger(idx, nil).Add(e.H, make([]uint64, len(tuple)), zeroRels(s, tuple))
			})
		default:
			extra := (c + 1 + abs(op.N)) % NumTypes
			ids := []ecs.ID{s.ids[c]}
			if !e.Has(extra) && !U[extra].IsRel && op.N%2 == 0 {
				ids = []ecs.ID{s.ids[extra], s.ids[c]}
			}
			if U[c].IsRel {
				s.expectPanic("Unsafe.AddRel", "dup_add", func() {
					s.W.Unsafe().AddRel(e.H, ids, ecs.RelID(s.ids[c], ecs.Entity{}))
				})
			} else {
				s.expectPanic("Unsafe.Add", "dup_add", func() { s.W.Unsafe().Add(e.H, ids...) })
			}
		}
	case "missing_remove":
		e := s.M.PickLive(op.E)
		if e == nil || s.locked() {
			s.skip(op)
			return
		}
		switch op.P {
		case PMap:
			idx := s.findTuple(MapTuples, e, false, abs(op.Ad))
			if idx < 0 {
				s.skip(op)
				return
			}
			s.expectPanic(mapperName(MapTuples[idx], idx)+".Remove", "missing_remove", func() { s.mapper(idx).Remove(e.H) })
		default:
			c := -1
			for k := 0; k < NumTypes; k++ {
				t := (abs(op.N) + k) % NumTypes
				if !e.Has(t) {
					c = t
					break
				}
			}
			if c < 0 {
				s.skip(op)
				return
			}
			ids := []ecs.ID{s.ids[c]}
			if len(e.Comps) > 0 && op.N%2 == 0 {
				ids = []ecs.ID{s.ids[e.Types()[0]], s.ids[c]}
			}
			if op.P == PEx {
				s.expectPanic("Unsafe.Exchange", "missing_remove", func() { s.W.Unsafe().Exchange(e.H, nil, ids) })
			} else {
				s.expectPanic("Unsafe.Remove", "missing_remove", func() { s.W.Unsafe().Remove(e.H, ids...) })
			}
		}
	case "batch":
		// the batch forms of dup_add / missing_remove / missing_target / a relation component the
		// entities lack: the batch covers all entities, one of them violates the precondition
		e := s.M.PickLive(op.E)
		if e == nil || s.locked() {
			s.skip(op)
			return
		}
		all := func() ecs.Batch { return ecs.NewFilter0(s.W).Batch() }
		switch abs(int(op.X)) % 5 {
		case 0:
			if len(e.Comps) == 0 {
				s.skip(op)
				return
			}
			idx := s.findTuple(MapTuples, e, true, abs(op.Ad))
			if idx < 0 {
				s.skip(op)
				return
			}
			tuple := MapTuples[idx]
			if op.N%2 == 0 {
				s.expectPanic(mapperName(tuple, idx)+".AddBatch", "batch_dup_add", func() {
					s.mapper(idx).AddBatch(all(), make([]uint64, len(tuple)), zeroRels(s, tuple))
				})
			} else {
				s.expectPanic(mapperName(tuple, idx)+".AddBatchFn", "batch_dup_add", func() {
					s.mapper(idx).AddBatchFn(all(), func(_ ecs.Entity, _ []unsafe.Pointer) {}, zeroRels(s, tuple))
				})
			}
		case 1:
			idx := s.findTuple(MapTuples, e, false, abs(op.Ad))
			if idx < 0 {
				s.skip(op)
				return
			}
			s.expectPanic(mapperName(MapTuples[idx], idx)+".RemoveBatch", "batch_missing_remove", func() { s.mapper(idx).RemoveBatch(all(), nil) })
		case 2:
			// a relation component without its target
			r := RelTypes[abs(op.N)%len(RelTypes)]
			idx := -1
			for k := range MapTuples {
				j := (k + abs(op.Ad)) % len(MapTuples)
				if contains(MapTuples[j], r) {
					idx = j
					break
				}
			}
			if idx < 0 {
				s.skip(op)
				return
			}
			tuple := MapTuples[idx]
			s.expectPanic(mapperName(tuple, idx)+".AddBatch", "batch_missing_target", func() {
				singleTargets = singleTargets[:0]
				s.mapper(idx).AddBatch(all(), make([]uint64, len(tuple)), nil)
			})
		case 3:
			// SetRelationsBatch over entities of which one lacks the relation component
			r := -1
			for k := range RelTypes {
				t := RelTypes[(k+abs(op.N))%len(RelTypes)]
				if !e.Has(t) {
					r = t
					break
				}
			}
			if r < 0 {
				s.skip(op)
				return
			}
			idx := -1
			for k := range MapTuples {
				j := (k + abs(op.Ad)) % len(MapTuples)
				if contains(MapTuples[j], r) {
					idx = j
					break
				}
			}
			if idx < 0 {
				s.skip(op)
				return
			}
			tuple := MapTuples[idx]
			s.expectPanic(mapperName(tuple, idx)+".SetRelationsBatch", "batch_not_relation", func() {
				s.mapper(idx).SetRelationsBatch(all(), nil, zeroRels(s, tuple))
			})
		default:
			c := -1
			for k := 0; k < NumTypes; k++ {
				t := (abs(op.N) + k) % NumTypes
				if !e.Has(t) {
					c = t
					break
				}
			}
			if c < 0 {
				s.skip(op)
				return
			}
			idx := abs(op.Ad) % len(ExTuples)
			if contains(ExTuples[idx], c) {
				s.skip(op)
				return
			}
			s.expectPanic(fmt.Sprintf("Exchange%d.RemoveBatch", len(ExTuples[idx])), "batch_missing_remove", func() {
				s.exchanger(idx, []int{c}).RemoveBatch(all(), nil)
			})
		}
	case "missing_target_chain":
		// An omitted relation target must be rejected whatever the entity went through before.
		// Step 1 is an odd call (two targets for the single relation of a Map, or a relation
		// target in an Exchange that only removes) that ark may reject or accept; step 2 adds
		// another relation component without its target and must panic. A world of its own.
		w := ecs.NewWorld(4)
		u := w.Unsafe()
		rA, rB, x := ecs.ComponentID[T12](w), ecs.ComponentID[T13](w), ecs.ComponentID[T02](w)
		t0, t1 := w.NewEntity(), w.NewEntity()
		var e ecs.Entity
		variant := "map_two_targets"
		var step1, step2 func()
		if op.N%2 == 0 {
			e = w.NewEntity()
			step1 = func() { ecs.NewMap[T12](w).Add(e, &T12{}, t0, t1) }
			step2 = func() { ecs.NewMap[T13](w).Add(e, &T13{}) }
			if op.N%4 == 0 {
				step2 = func() { u.Add(e, rB) }
			}
		} else {
			variant = "exchange_remove_only"
			e = u.NewEntityRel([]ecs.ID{x, rA}, ecs.RelID(rA, t0))
			step1 = func() { u.Exchange(e, nil, []ecs.ID{x}, ecs.RelID(rA, t1)) }
			step2 = func() { u.Add(e, rB) }
			if op.N%4 == 1 {
				step2 = func() { ecs.NewMap1[T13](w).Add(e, &T13{}) }
			}
		}
		s.C.Checks["pre.panics"]++
		s.C.Faults["misuse_missing_target_chain"]++
		if p1, _ := s.call(step1); !p1 {
			if p2, _ := s.call(step2); !p2 {
				s.violate("C10", "pre.panics", "missing_target_chain/"+variant, false, "adding a relation component without its target did not panic (after the call %q had been accepted); the relation now targets %v", variant, u.GetRelation(e, rB))
			}
		}
	case "nonrel_target":
		// A relation target given for a component that is not a relation component, through the
		// ID-based API: rejected as in the typed API, without effect - whether or not the
		// archetype the call leads to exists already.
		e, tgE := s.M.PickLive(op.E), s.M.PickLive(op.E+1)
		if e == nil || tgE == nil || s.locked() {
			s.skip(op)
			return
		}
		variant := abs(int(op.X)) % 4
		c := -1
		for k := 0; k < NumTypes; k++ {
			t := (abs(op.N) + k) % NumTypes
			if !U[t].IsRel && e.Has(t) == (variant == 3) {
				c = t
				break
			}
		}
		if c < 0 {
			s.skip(op)
			return
		}
		u := s.W.Unsafe()
		rel := ecs.RelID(s.ids[c], tgE.H)
		switch variant {
		case 0:
			s.expectPanic("Unsafe.AddRel", "nonrel_target", func() { u.AddRel(e.H, []ecs.ID{s.ids[c]}, rel) })
		case 1:
			s.expectPanic("Unsafe.NewEntityRel", "nonrel_target", func() { u.NewEntityRel([]ecs.ID{s.ids[c]}, rel) })
		case 2:
			s.expectPanic("Unsafe.Exchange", "nonrel_target", func() { u.Exchange(e.H, []ecs.ID{s.ids[c]}, nil, rel) })
		default:
			s.expectPanic("Unsafe.SetRelations", "nonrel_target", func() { u.SetRelations(e.H, rel) })
		}
		if !s.fatal {
			// the world is still usable: a query over that component runs and leaves the world unlocked
			want := 0
			for _, l := range s.M.Live {
				if s.M.Get(l).Has(c) {
					want++
				}
			}
			n := -1
			p, val := s.call(func() {
				q := ecs.NewUnsafeFilter(s.W, s.ids[c]).Query()
				n = 0
				for q.Next() {
					n++
				}
			})
			if p || n != want || s.W.IsLocked() {
				s.violate("C10", "pre.unchanged", "nonrel_target/query", true, "after the rejected call (variant %d) a query for T%02d yields %d entities (expected %d), panic=%v, locked=%v", variant, c, n, want, val, s.W.IsLocked())
			}
		}
	case "empty_list":
		e := s.M.PickLive(op.E)
		if e == nil || s.locked() {
			s.skip(op)
			return
		}
		switch abs(op.N) % 3 {
		case 0:
			s.expectPanic("Unsafe.Add", "empty_list", func() { s.W.Unsafe().Add(e.H) })
		case 1:
			s.expectPanic("Unsafe.Remove", "empty_list", func() { s.W.Unsafe().Remove(e.H) })
		default:
			s.expectPanic("Unsafe.Exchange", "empty_list", func() { s.W.Unsafe().Exchange(e.H, nil, nil) })
		}
	case "missing_target":
		if s.locked() {
			s.skip(op)
			return
		}
		r := RelTypes[abs(op.N)%len(RelTypes)]
		switch abs(int(op.X)) % 10 {
		case 9:
			// a relation component is added without its target; the one target that is passed
			// names a relation component the entity already has
			e := s.M.PickLive(op.E)
			if e == nil {
				s.skip(op)
				return
			}
			r1, r2 := -1, -1
			for k := range RelTypes {
				t := RelTypes[(k+abs(op.N))%len(RelTypes)]
				if e.Has(t) && r1 < 0 {
					r1 = t
				} else if !e.Has(t) && r2 < 0 {
					r2 = t
				}
			}
			if r1 < 0 || r2 < 0 {
				s.skip(op)
				return
			}
			tg := ecs.Entity{}
			if o := s.M.PickLive(op.E + 1); o != nil && op.N%2 == 0 {
				tg = o.H
			}
			if op.N%3 == 0 {
				s.expectPanic("Unsafe.Exchange", "missing_target_other", func() {
					s.W.Unsafe().Exchange(e.H, []ecs.ID{s.ids[r2]}, nil, ecs.RelID(s.ids[r1], tg))
				})
			} else {
				s.expectPanic("Unsafe.AddRel", "missing_target_other", func() {
					s.W.Unsafe().AddRel(e.H, []ecs.ID{s.ids[r2]}, ecs.RelID(s.ids[r1], tg))
				})
			}
		case 7, 8:
			// two relation components, as many targets as relation components, but both for the
			// same component: the target of the other one is omitted
			t1, t2 := ecs.Entity{}, ecs.Entity{}
			if e := s.M.PickLive(op.E); e != nil {
				t1, t2 = e.H, e.H
				if e2 := s.M.PickLive(op.E + 1); e2 != nil && op.N%2 == 0 {
					t2 = e2.H
				}
			}
			if abs(int(op.X))%10 == 7 {
				idx := -1
				for k := 0; k < len(MapTuples); k++ {
					i := NumMapSingles + (abs(op.Ad)+k)%(len(MapTuples)-NumMapSingles)
					if len(relTypesOf(MapTuples[i])) == 2 {
						idx = i
						break
					}
				}
				if idx < 0 {
					s.skip(op)
					return
				}
				tuple := MapTuples[idx]
				pos := -1
				for i, t := range tuple {
					if U[t].IsRel {
						pos = i
						if op.N%3 == 0 {
							break
						}
					}
				}
				s.expectPanic(mapperName(tuple, idx)+".NewEntity", "missing_target_dup", func() {
					s.mapper(idx).NewEntity(make([]uint64, len(tuple)), []ecs.Relation{ecs.RelIdx(pos, t1), ecs.RelIdx(pos, t2)})
				})
			} else {
				r2 := RelTypes[(abs(op.N)+1)%len(RelTypes)]
				s.expectPanic("Unsafe.NewEntityRel", "missing_target_dup", func() {
					s.W.Unsafe().NewEntityRel([]ecs.ID{s.ids[r], s.ids[r2], s.ids[2]}, ecs.RelID(s.ids[r], t1), ecs.RelID(s.ids[r], t2))
				})
			}
		case 4, 5:
			// Map.Add / Map.AddFn without the required target, on a mapper that may have been
			// used with a target before (mappers are cached per world)
			e := s.M.PickLive(op.E)
			if e == nil || e.Has(r) {
				s.skip(op)
				return
			}
			if abs(int(op.X))%10 == 4 {
				s.expectPanic("Map.Add", "missing_target", func() {
					singleTargets = singleTargets[:0]
					s.mapper(r).Add(e.H, []uint64{1}, nil)
				})
			} else {
				s.expectPanic("Map.AddFn", "missing_target", func() {
					singleTargets = singleTargets[:0]
					s.mapper(r).AddFn(e.H, func(_ ecs.Entity, _ []unsafe.Pointer) {}, nil)
				})
			}
		case 6:
			// MapN.Add / ExchangeN.Add with a relation component in the tuple but no target
			e := s.M.PickLive(op.E)
			if e == nil {
				s.skip(op)
				return
			}
			if op.N%2 == 0 {
				idx := -1
				for k := 0; k < len(MapTuples); k++ {
					i := NumMapSingles + (abs(op.Ad)+k)%(len(MapTuples)-NumMapSingles)
					if len(relTypesOf(MapTuples[i])) > 0 && !e.HasAny(MapTuples[i]...) {
						idx = i
						break
					}
				}
				if idx < 0 {
					s.skip(op)
					return
				}
				tuple := MapTuples[idx]
				s.expectPanic(mapperName(tuple, idx)+".Add", "missing_target", func() {
					s.mapper(idx).Add(e.H, make([]uint64, len(tuple)), nil)
				})
			} else {
				idx := -1
				for k := 0; k < len(ExTuples); k++ {
					i := (abs(op.Ad) + k) % len(ExTuples)
					if len(relTypesOf(ExTuples[i])) > 0 && !e.HasAny(ExTuples[i]...) {
						idx = i
						break
					}
				}
				if idx < 0 {
					s.skip(op)
					return
				}
				tuple := ExTuples[idx]
				s.expectPanic(fmt.Sprintf("Exchange%d.Add", len(tuple)), "missing_target", func() {
					s.exchanger(idx, nil).Add(e.H, make([]uint64, len(tuple)), nil)
				})
			}
		case 0:
			s.expectPanic("Unsafe.NewEntity", "missing_target", func() { s.W.Unsafe().NewEntity(s.ids[r], s.ids[2]) })
		case 1:
			e := s.M.PickLive(op.E)
			if e == nil || e.Has(r) {
				s.skip(op)
				return
			}
			s.expectPanic("Unsafe.Add", "missing_target", func() { s.W.Unsafe().Add(e.H, s.ids[r]) })
		case 2:
			s.expectPanic("Map.NewEntity", "missing_target", func() {
				singleTargets = singleTargets[:0]
				s.mapper(r).NewEntity([]uint64{1}, nil)
			})
		default:
			idx := -1
			for k := 0; k < len(MapTuples); k++ {
				i := NumMapSingles + (abs(op.Ad)+k)%(len(MapTuples)-NumMapSingles)
				if len(relTypesOf(MapTuples[i])) > 0 {
					idx = i
					break
				}
			}
			tuple := MapTuples[idx]
			s.expectPanic(mapperName(tuple, idx)+".NewEntity", "missing_target", func() {
				s.mapper(idx).NewEntity(make([]uint64, len(tuple)), nil)
			})
		}
	case "dead_target":
		d := s.M.PickDead(op.E)
		if d == nil || s.locked() {
			s.skip(op)
			return
		}
		r := RelTypes[abs(op.N)%len(RelTypes)]
		switch abs(int(op.X)) % 5 {
		case 0:
			s.expectPanic("Unsafe.NewEntityRel", "dead_target", func() {
				s.W.Unsafe().NewEntityRel([]ecs.ID{s.ids[r]}, ecs.RelID(s.ids[r], d.H))
			})
		case 1:
			s.expectPanic("Map.NewEntity", "dead_target", func() {
				singleTargets = append(singleTargets[:0], d.H)
				s.mapper(r).NewEntity([]uint64{1}, nil)
			})
		case 2:
			e := s.pickWithRel(op.E, r)
			if e == nil {
				s.skip(op)
				return
			}
			s.expectPanic("Unsafe.SetRelations", "dead_target", func() { s.W.Unsafe().SetRelations(e.H, U[r].Rel(d.H)) })
		case 3:
			e := s.pickWithRel(op.E, r)
			if e == nil {
				s.skip(op)
				return
			}
			s.expectPanic("Map.SetRelation", "dead_target", func() {
				singleTargets = append(singleTargets[:0], d.H)
				s.mapper(r).SetRelations(e.H, nil)
			})
		default:
			e := s.M.PickLive(op.E)
			if e == nil || e.Has(r) {
				s.skip(op)
				return
			}
			s.expectPanic("Unsafe.AddRel", "dead_target", func() {
				s.W.Unsafe().AddRel(e.H, []ecs.ID{s.ids[r]}, ecs.RelID(s.ids[r], d.H))
			})
		}
	case "obs_invalid":
		// registering a relation observer that observes a non-relation component must panic
		// and must leave no trace: the observer is kept (unregistered) in the inventory so
		// that any later firing is reported as spurious by the event oracle
		if len(s.observers) >= MaxObservers+4 {
			s.skip(op)
			return
		}
		ev := []int{EvAddRel, EvRemoveRel}[abs(op.N)%2]
		nonRel := -1
		for k := 0; k < NumTypes; k++ {
			t := (abs(op.E) + k) % NumTypes
			if !U[t].IsRel {
				nonRel = t
				break
			}
		}
		o := NewObserverer(s.eventType(ev), -1)
		fr := []int{nonRel}
		if op.N%3 == 0 {
			fr = []int{RelTypes[abs(op.E)%len(RelTypes)], nonRel} // the valid one first: half-way registration
		}
		o.For(fr)
		oi := len(s.observers)
		inst := &ObsInst{Spec: ObsSpec{Ev: ev, Ad: -1, For: fr}, O: o, ForAll: fr, Epoch: s.M.Epoch, Invalid: true}
		o.Do(func(e ecs.Entity, ptrs []unsafe.Pointer) { s.onEvent(oi, e, ptrs) })
		s.observers = append(s.observers, inst)
		before := s.W.Stats().Observers
		s.expectPanic("Observer.Register", "obs_invalid", func() { o.Register(s.W) })
		if after := s.W.Stats().Observers; after != before {
			s.violate("C10", "pre.unchanged", "Observer.Register/obs_invalid/count", false, "a rejected observer registration changed Stats().Observers from %d to %d", before, after)
		}
	case "obs_locked_register":
		// Registering an observer for a component type the world has not seen yet is a
		// structure-changing operation (it registers the type): on a locked world it panics
		// "without effect" (C07), so the same observer can be registered once the query is closed.
		// A world of its own.
		w := ecs.NewWorld(4)
		ecs.NewMap1[T02](w).NewEntity(&T02{V: 1})
		ev := []ecs.EventType{ecs.OnAddComponents, ecs.OnRemoveComponents, ecs.OnCreateEntity, ecs.OnSetComponents}[abs(op.N)%4]
		var obs *ecs.Observer
		switch abs(op.E) % 3 {
		case 0:
			obs = ecs.Observe(ev).For(ecs.C[T03]())
		case 1:
			obs = ecs.Observe(ev).With(ecs.C[T04]())
		default:
			obs = ecs.Observe(ev).For(ecs.C[T02]()).Without(ecs.C[T06]())
		}
		obs = obs.Do(func(ecs.Entity) {})
		q := ecs.NewFilter0(w).Query()
		s.C.Checks["lock.blocks"]++
		s.C.Faults["misuse_obs_locked_register"]++
		before := len(ecs.ComponentIDs(w))
		p1, _ := s.call(func() { obs.Register(w) })
		q.Close()
		if !p1 {
			s.violate("C07", "lock.blocks", "obs_locked_register/no_panic", false, "registering an observer for a component type that is new to the world did not panic on a locked world")
			return
		}
		if after := len(ecs.ComponentIDs(w)); after != before || w.Stats().Observers != 0 {
			s.violate("C07", "lock.blocks", "obs_locked_register/effect", false, "the rejected registration left %d component types (before %d) and %d observers", after, before, w.Stats().Observers)
			return
		}
		if p2, val := s.call(func() { obs.Register(w) }); p2 {
			s.violate("C07", "lock.blocks", "obs_locked_register/poisoned", false, "after its registration was rejected on the locked world, the observer cannot be registered on the unlocked world either: %v", val)
			return
		}
		if p3, val := s.call(func() { obs.Unregister(w) }); p3 {
			s.violate("C07", "lock.blocks", "obs_locked_register/unregister", false, "unregistering the observer afterwards panicked: %v", val)
		}
	case "query_dead_target", "query_foreign_relation":
		// creating a typed query with an invalid relation argument must panic and must not
		// leave the world locked (the lock-state oracle that follows every op checks that)
		if len(s.filters) == 0 || s.lockDepth >= 64 {
			s.skip(op)
			return
		}
		fi := s.filters[abs(op.F)%len(s.filters)]
		f := fi.A
		if op.W == 1 {
			f = fi.B
		}
		if !fi.Typed() || !f.CanRegister() {
			s.skip(op)
			return
		}
		req := fi.Spec.Required()
		var rels []ecs.Relation
		if op.M == "query_dead_target" {
			d := s.M.PickDead(op.E)
			rt := -1
			for _, t := range req {
				if U[t].IsRel {
					rt = t
				}
			}
			if d == nil || rt < 0 {
				s.skip(op)
				return
			}
			if op.N%2 == 0 {
				rels = []ecs.Relation{U[rt].Rel(d.H)}
			} else {
				for i, t := range req {
					if t == rt {
						rels = []ecs.Relation{ecs.RelIdx(i, d.H)}
					}
				}
			}
		} else {
			rt := -1
			for _, t := range RelTypes {
				if !contains(req, t) {
					rt = t
				}
			}
			if rt < 0 {
				s.skip(op)
				return
			}
			rels = []ecs.Relation{U[rt].Rel(ecs.Entity{})}
		}
		var q Querier
		s.expectPanic(fmt.Sprintf("Filter%d.Query", len(fi.Spec.Ts)), op.M, func() { q = f.Query(rels) })
		if q != nil {
			q.Close()
		}
	default:
		s.skip(op)
	}
}

func (s *Sim) pickWithRel(idx int, r int) *Ent {
	var c []int
	for _, l := range s.M.Live {
		if s.M.Ents[l-1].Has(r) {
			c = append(c, l)
		}
	}
	if len(c) == 0 {
		return nil
	}
	return s.M.Get(c[abs(idx)%len(c)])
}

// findTuple finds a tuple of which the entity has at least one component
// (has=true: for duplicate add) or lacks at least one (has=false: for missing remove).
func (s *Sim) findTuple(tuples [][]int, e *Ent, has bool, start int) int {
	for k := 0; k < len(tuples); k++ {
		i := (start + k) % len(tuples)
		if len(tuples[i]) == 0 {
			continue
		}
		if has && e.HasAny(tuples[i]...) {
			return i
		}
		if !has && !e.Has(tuples[i]...) {
			return i
		}
	}
	return -1
}

func readOnlySurface(name string) bool {
	for _, suf := range []string{".Get", ".Has", ".HasAll", ".GetRelation", ".IDs", ".Set"} {
		if len(name) >= len(suf) && name[len(name)-len(suf):] == suf {
			return true
		}
	}
	return false
}

// opMatrix enumerates the complete stale-handle matrix at the current state
// (C10, level fault_enumeration): every surface x every stale-handle kind.
func (s *Sim) opMatrix(op *Op) {
	if s.locked() {
		s.skip(op)
		return
	}
	cells := 0
	for kind := 0; kind < 3; kind++ {
		h, kname, ok := s.staleHandle(kind, op.E)
		if !ok {
			continue
		}
		if kind == 1 && kname != "recycled" {
			continue
		}
		var all []surface
		all = append(all, staleSurfacesWorld()...)
		for i := range MapTuples {
			all = append(all, mapperSurfaces(i)...)
		}
		for i := range ExTuples {
			all = append(all, exchangerSurfaces(i)...)
		}
		for _, su := range all {
			if su.call == nil || (su.name == "Event.Emit" && kname == "zero") {
				continue
			}
			s.expectPanic(su.name, kname, func() { su.call(s, h) })
			cells++
		}
	}
	s.C.Faults["matrix_cells"] += cells
	s.tracef("%d Matrix cells=%d", s.OpIdx, cells)
}
