//go:build ark_tiny

package sim

const tinyBuild = true
