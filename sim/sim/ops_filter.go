package sim

import (
	"fmt"
	"sort"
	"strings"

	"github.com/mlange-42/ark/ecs"
)

// Filters, cached filters and queries.

// MaxFilters bounds the number of filter pairs per run.
const MaxFilters = 12

func (s *Sim) buildFilter(spec *FilterSpec, rels []relPair) Filterer {
	var f Filterer
	if spec.Ad < 0 || s.Flags.ForceUnsafe {
		// (C14 twin B: typed filters and queries are replaced by UnsafeFilter / UnsafeQuery)
		f = NewUnsafeFilterAd(s.W, s.idFn(), spec.Ts)
	} else {
		f = NewFilterer(s.W, spec.Ad)
	}
	if spec.Excl && spec.XFirst {
		// the builder calls in the other order: an exclusive filter includes the components set via With
		f.Exclusive()
	}
	if len(spec.With) > 0 {
		f.With(spec.With)
	}
	if spec.Excl && !spec.XFirst {
		f.Exclusive()
	} else if !spec.Excl && len(spec.Without) > 0 {
		f.Without(spec.Without)
	}
	if len(rels) > 0 {
		tgt := map[int]int{}
		var order []int
		for _, r := range rels {
			tgt[r.T] = r.Label
			order = append(order, r.T)
		}
		tuple := append(append([]int{}, spec.Ts...), spec.With...)
		style := RSIdx
		if spec.Ad < 0 || s.Flags.ForceUnsafe {
			style = RSID
		}
		f.Relations(s.relations(tuple, tgt, order, style))
	}
	return f
}

// normSpec makes a filter spec well-formed (see DESIGN.md 5a).
func normSpec(spec FilterSpec) FilterSpec {
	if spec.Ad >= 0 {
		spec.Ad = spec.Ad % len(FilterTuples)
		spec.Ts = FilterTuples[spec.Ad]
	} else {
		spec.Ad = -1
		spec.Ts = uniqKeep(spec.Ts)
	}
	var with []int
	for _, t := range uniqKeep(spec.With) {
		if !contains(spec.Ts, t) {
			with = append(with, t)
		}
	}
	spec.With = with
	req := spec.Required()
	var wo []int
	for _, t := range uniqKeep(spec.Without) {
		if !contains(req, t) {
			wo = append(wo, t)
		}
	}
	spec.Without = wo
	if spec.Excl {
		spec.Without = nil
	}
	var rels []RelSpec
	seen := []int{}
	for _, r := range spec.Rels {
		if r.T >= 0 && r.T < NumTypes && U[r.T].IsRel && contains(req, r.T) && !contains(seen, r.T) {
			rels = append(rels, r)
			seen = append(seen, r.T)
		}
	}
	spec.Rels = rels
	return spec
}

func (s *Sim) opNewFilter(op *Op) {
	if op.Spec == nil || (len(s.filters) >= MaxFilters && !s.rebuilding) || s.locked() {
		// Creating a filter may register nothing new (all types are registered), but
		// Filter.With etc. are only exercised on an unlocked world to keep the op simple.
		s.skip(op)
		return
	}
	spec := normSpec(*op.Spec)
	var rels []relPair
	for _, r := range spec.Rels {
		rels = append(rels, relPair{T: r.T, Label: s.target(r.Tgt)})
	}
	fi := &FilterInst{Spec: spec, Rels: rels}
	fi.A = s.buildFilter(&spec, rels)
	fi.B = s.buildFilter(&spec, rels)
	s.filters = append(s.filters, fi)
	s.tracef("%d NewFilter ad=%d ts=%v with=%v wo=%v excl=%v rels=%v", s.OpIdx, spec.Ad, spec.Ts, spec.With, spec.Without, spec.Excl, rels)
}

func (s *Sim) opRegister(op *Op, reg bool) {
	if len(s.filters) == 0 {
		s.skip(op)
		return
	}
	fi := s.filters[abs(op.F)%len(s.filters)]
	if !fi.Typed() || fi.Registered == reg {
		s.skip(op)
		return
	}
	if !s.Flags.VirtualCache && fi.A.CanRegister() {
		p, val := s.call(func() {
			if reg {
				fi.A.Register()
			} else {
				fi.A.Unregister()
			}
		})
		if p {
			s.violate("C05", "cache.register", fmt.Sprint(reg), true, "register=%v of a filter panicked: %v", reg, val)
			return
		}
	}
	fi.Registered = reg
	fi.RegAtEpoch = s.M.Epoch
	if reg {
		s.C.Faults["filter_register"]++
		if s.locked() {
			s.C.Faults["filter_register_while_query_open"]++
		}
	} else {
		s.C.Faults["filter_unregister"]++
		if s.locked() {
			s.C.Faults["filter_unregister_while_query_open"]++
		}
	}
	s.tracef("%d Register %d %v", s.OpIdx, abs(op.F)%len(s.filters), reg)
}

// queryRels resolves per-query relation targets for a filter.
func (s *Sim) queryRels(fi *FilterInst, qr []RelSpec, fl Filterer) ([]relPair, []ecs.Relation) {
	req := fi.Spec.Required()
	var pairs []relPair
	tgt := map[int]int{}
	var order []int
	for _, r := range qr {
		if r.T < 0 || r.T >= NumTypes || !U[r.T].IsRel || !contains(req, r.T) || contains(order, r.T) {
			continue
		}
		dup := false
		for _, fr := range fi.Rels {
			if fr.T == r.T {
				dup = true
			}
		}
		if dup {
			continue
		}
		l := s.target(r.Tgt)
		if !fi.Typed() && r.Tgt <= -100 {
			// the ID-based API does not check per-query targets: a removed (possibly
			// recycled) entity as target is allowed and must match nothing
			if d := s.M.PickDead(-r.Tgt); d != nil {
				l = d.Label
				s.C.Faults["query_with_dead_target"]++
			}
		}
		pairs = append(pairs, relPair{T: r.T, Label: l})
		tgt[r.T] = l
		order = append(order, r.T)
	}
	if len(pairs) == 0 {
		return nil, nil
	}
	style := RSIdx
	if !fl.CanRegister() {
		style = RSID
	}
	return pairs, s.relations(req, tgt, order, style)
}

func (s *Sim) opOpenQuery(op *Op) {
	if op.N > 1 {
		// burst: open queries until the capacity is reached, then one more
		n := op.N
		one := *op
		one.N = 0
		for i := 0; i < n && s.lockDepth <= 64 && !s.fatal; i++ {
			before := s.lockDepth
			if i > 0 && len(op.QR) > 0 {
				// a different partition for every query of the burst
				qr := make([]RelSpec, len(op.QR))
				for k, r := range op.QR {
					qr[k] = r
					if r.Tgt >= 0 {
						qr[k].Tgt = r.Tgt + i
					}
				}
				one.QR = qr
			}
			s.opOpenQuery(&one)
			if s.lockDepth == before {
				break // skipped or the 65th was rejected
			}
		}
		return
	}
	if len(s.filters) == 0 || len(s.queries) >= 400 {
		s.skip(op)
		return
	}
	fidx := abs(op.F) % len(s.filters)
	fi := s.filters[fidx]
	f := fi.A
	w := 0
	if op.W == 1 {
		f = fi.B
		w = 1
	}
	extra, qrels := s.queryRels(fi, op.QR, f)
	rels := append(append([]relPair{}, fi.Rels...), extra...)
	if s.lockDepth >= 64 {
		// 65th simultaneous query: must panic, the 64 stay usable (C07 lock.capacity).
		s.C.Faults["misuse_65th_query"]++
		p, _ := s.call(func() { f.Query(qrels) })
		if !p {
			s.violate("C07", "lock.capacity", "65th", true, "a 65th simultaneous query did not panic")
			return
		}
		// as soon as one of the 64 is closed, a query can be opened again
		var last *OpenQuery
		for _, oq := range s.queries {
			if !oq.Done {
				last = oq
			}
		}
		if last != nil {
			if p, val := s.call(func() { last.Q.Close() }); p {
				s.violate("C07", "lock.release", "close_at_capacity", true, "closing one of 64 open queries panicked: %v", val)
				return
			}
			last.Done = true
			last.OnEntity = false
			s.lockDepth--
			s.C.Checks["lock.capacity.reopen"]++
			if p, val := s.call(func() {
				q := ecs.NewFilter0(s.W).Query()
				q.Close()
			}); p {
				s.violate("C07", "lock.capacity", "reopen_after_full", true, "with 63 queries open after 64 had been open, a further query was refused: %v", val)
			}
		}
		return
	}
	var q Querier
	p, val := s.call(func() { q = f.Query(qrels) })
	if p {
		s.violate("C07", "lock.allows", "Query", true, "creating query number %d panicked: %v", s.lockDepth+1, val)
		return
	}
	oq := &OpenQuery{F: fidx, W: w, Q: q, Rels: rels, Expect: map[int]bool{}, Visited: map[int]int{}, Held: true}
	for _, l := range s.M.Select(&fi.Spec, rels) {
		oq.Expect[l] = true
	}
	s.queries = append(s.queries, oq)
	s.lockDepth++
	s.C.Faults["held_queries"]++
	s.tracef("%d OpenQuery f=%d w=%d -> q%d", s.OpIdx, fidx, w, len(s.queries)-1)
}

// stepQuery advances an open query by one; returns false when it finished.
func (s *Sim) stepQuery(oq *OpenQuery) bool {
	var ok bool
	p, val := s.call(func() { ok = oq.Q.Next() })
	if p {
		s.violate("C03", "query.exact", "next_panic", true, "Query.Next panicked: %v", val)
		return false
	}
	oq.Steps++
	if !ok {
		oq.Done = true
		oq.OnEntity = false
		s.lockDepth--
		s.C.Checks["query.exact"]++
		if s.Flags.Observe && oq.Held {
			s.firedLog = append(s.firedLog, fmt.Sprintf("query(f%d.%d)=%v", oq.F, oq.W, sortedCopy(oq.Order)))
		}
		if len(oq.Visited) != len(oq.Expect) {
			var miss []int
			for l := range oq.Expect {
				if oq.Visited[l] == 0 {
					miss = append(miss, l)
				}
			}
			sort.Ints(miss)
			s.queryViolation(oq, "missing", "query finished after %d entities, expected %d; missing labels %v", len(oq.Visited), len(oq.Expect), miss)
		}
		s.checkCountAfterEnd(oq, "after_end")
		return false
	}
	oq.OnEntity = true
	h := oq.Q.Entity()
	l := s.labelOf(h)
	oq.Order = append(oq.Order, l)
	if l <= 0 || !oq.Expect[l] {
		s.queryViolation(oq, "foreign", "query visited %v (label %d) which does not match the filter", h, l)
		return true
	}
	oq.Visited[l]++
	if oq.Visited[l] > 1 {
		s.queryViolation(oq, "duplicate", "query visited entity label %d %d times", l, oq.Visited[l])
		return true
	}
	s.checkQueryData(oq, h, l)
	return true
}

// checkCountAfterEnd: Count and EntityAt of a query that has just finished (or was just closed)
// still describe the entities it matches: `for q.Next() {...}; n := q.Count()` is ordinary use.
// The world has not changed since the query was created. A panic is accepted as a rejection.
func (s *Sim) checkCountAfterEnd(oq *OpenQuery, when string) {
	if s.lockDepth >= 63 {
		return
	}
	s.C.Checks["query.count_after_end"]++
	var c int
	if p, _ := s.call(func() { c = oq.Q.Count() }); p {
		return
	}
	if c != len(oq.Expect) {
		s.queryViolation(oq, "count_"+when, "Count() of the query right %s = %d, the query matches %d entities", strings.ReplaceAll(when, "_", " "), c, len(oq.Expect))
		return
	}
	if c > 0 {
		var h ecs.Entity
		i := (oq.Steps + c/2) % c
		if p, _ := s.call(func() { h = oq.Q.EntityAt(i) }); p {
			return
		}
		if l := s.labelOf(h); l <= 0 || !oq.Expect[l] {
			s.queryViolation(oq, "entity_at_"+when, "EntityAt(%d) of the query right %s = %v (label %d), which does not match the filter", i, strings.ReplaceAll(when, "_", " "), h, l)
		}
	}
}

func (s *Sim) queryViolation(oq *OpenQuery, sig string, format string, args ...any) {
	fi := s.filters[oq.F]
	prop, oracle := "C03", "query.exact"
	if oq.W == 0 && fi.Registered {
		// A cached query is judged against its uncached twin first (C05); here the model is the reference.
		sig = "cached/" + sig
	}
	s.violate(prop, oracle, sig, false, "filter %d/%d (ad=%d ts=%v with=%v wo=%v excl=%v rels=%v registered=%v): %s", oq.F, oq.W, fi.Spec.Ad, fi.Spec.Ts, fi.Spec.With, fi.Spec.Without, fi.Spec.Excl, oq.Rels, fi.Registered, fmt.Sprintf(format, args...))
}

// checkQueryData checks that the query yields the entity's live data (C03 query.data, C14 api.pointers).
func (s *Sim) checkQueryData(oq *OpenQuery, h ecs.Entity, l int) {
	fi := s.filters[oq.F]
	ts := fi.Spec.Ts
	ptrs := oq.Q.Get()
	u := s.W.Unsafe()
	s.C.Checks["query.data"]++
	for i, p := range ptrs {
		want := u.Get(h, s.ids[ts[i]])
		if p != want {
			s.violate("C03", "query.data", fmt.Sprintf("Query%d.Get", len(ts)), false, "query Get() pointer %d (T%02d) for entity label %d = %x, Unsafe.Get = %x", i, ts[i], l, ptrOf(p), ptrOf(want))
			if fi.Spec.Ad >= 0 {
				s.violate("C14", "api.pointers", fmt.Sprintf("Query%d.Get", len(ts)), false, "Query%d.Get() pointer %d (T%02d) for entity label %d = %x, Unsafe.Get = %x", len(ts), i, ts[i], l, ptrOf(p), ptrOf(want))
			}
			return
		}
		if got, exp := U[ts[i]].Get(p), s.M.Get(l).Comps[ts[i]]; got != exp {
			// value mismatch is C01's business; pointer identity is what C03 asks for.
			_ = got
			_ = exp
		}
	}
	if uq, ok := oq.Q.(*unsafeQueryAd); ok {
		raw := uq.Raw()
		ids := raw.IDs()
		want := u.IDs(h)
		if ids.Len() != want.Len() {
			s.violate("C03", "query.data", "UnsafeQuery.IDs", false, "UnsafeQuery.IDs() has %d IDs for entity label %d, Unsafe.IDs has %d", ids.Len(), l, want.Len())
			return
		}
		optional := 0
		for tp := 0; tp < NumTypes; tp++ {
			has := u.Has(h, s.ids[tp])
			if raw.Has(s.ids[tp]) != has {
				s.violate("C03", "query.data", "UnsafeQuery.Has", false, "UnsafeQuery.Has(T%02d) = %v for entity label %d, Unsafe.Has = %v", tp, raw.Has(s.ids[tp]), l, has)
				return
			}
			// a component the entity has although the filter does not ask for it can be read as well
			// (`if q.Has(id) { q.Get(id) }`)
			if has && optional < 2 && !contains(ts, tp) {
				optional++
				if got, want := raw.Get(s.ids[tp]), u.Get(h, s.ids[tp]); got != want {
					s.violate("C03", "query.data", "UnsafeQuery.Get/optional", false, "UnsafeQuery.Get(T%02d) (not in the filter, present on entity label %d) = %x, Unsafe.Get = %x", tp, l, ptrOf(got), ptrOf(want))
					return
				}
			}
		}
	}
	for i, t := range ts {
		if !U[t].IsRel || len(ts) == 0 {
			continue
		}
		got := oq.Q.GetRelation(i)
		want := u.GetRelation(h, s.ids[t])
		if got != want {
			s.violate("C03", "query.data", fmt.Sprintf("Query%d.GetRelation", len(ts)), false, "query GetRelation(%d) for entity label %d = %v, Unsafe.GetRelation = %v", i, l, got, want)
			if fi.Spec.Ad >= 0 {
				s.violate("C14", "api.relidx", fmt.Sprintf("Query%d.GetRelation", len(ts)), false, "Query%d.GetRelation(%d) for entity label %d = %v, Unsafe.GetRelation = %v", len(ts), i, l, got, want)
			}
			return
		}
	}
}

func (s *Sim) opNext(op *Op) {
	oq := s.pickQuery(op.Q)
	if oq == nil {
		s.skip(op)
		return
	}
	n := abs(op.N)%20 + 1
	writing := op.Fn == FnFunc && oq.Steps == 0
	if writing {
		// writing variant: runs to exhaustion, so that the set of written entities does
		// not depend on the iteration order (which may differ between twin worlds)
		n = 1 << 30
	}
	for i := 0; i < n; i++ {
		if !s.stepQuery(oq) || s.fatal {
			break
		}
		if writing && oq.OnEntity {
			s.writeThroughQuery(oq, op, i)
		}
	}
	s.tracef("%d Next q order=%v done=%v", s.OpIdx, oq.Order, oq.Done)
}

// pickQuery resolves a query index among queries that are still open.
func (s *Sim) pickQuery(idx int) *OpenQuery {
	var open []*OpenQuery
	for _, q := range s.queries {
		if !q.Done {
			open = append(open, q)
		}
	}
	if len(open) == 0 {
		return nil
	}
	return open[abs(idx)%len(open)]
}

func (s *Sim) opCloseQuery(op *Op) {
	var oq *OpenQuery
	if op.M == "again" {
		// closing a finished or closed query again is harmless (C07)
		var done []*OpenQuery
		for _, q := range s.queries {
			if q.Done {
				done = append(done, q)
			}
		}
		if len(done) == 0 {
			s.skip(op)
			return
		}
		oq = done[abs(op.Q)%len(done)]
		s.C.Faults["close_again"]++
		if op.Q%2 == 1 && s.lockDepth < 63 {
			// a caller that calls Next once more on the finished query (it panics, or returns
			// false) and then closes it: the locks of the other open queries must not be touched
			s.C.Faults["next_again"]++
			var again bool
			s.call(func() { again = oq.Q.Next() })
			if again {
				s.violate("C07", "lock.release", "next_again", true, "Next on a finished or closed query returned true: the query came back to life (IsLocked=%v, %d queries open)", s.W.IsLocked(), s.lockDepth)
				return
			}
		}
		p, val := s.call(func() { oq.Q.Close() })
		if p {
			s.violate("C07", "lock.release", "close_again", true, "closing a finished/closed query again panicked: %v", val)
		}
		return
	}
	oq = s.pickQuery(op.Q)
	if oq == nil {
		s.skip(op)
		return
	}
	p, val := s.call(func() { oq.Q.Close() })
	if p {
		s.violate("C07", "lock.release", "close", true, "closing an open query panicked: %v", val)
		return
	}
	oq.Done = true
	oq.OnEntity = false
	s.lockDepth--
	s.C.Faults["early_close"]++
	s.checkCountAfterEnd(oq, "after_close")
	s.tracef("%d CloseQuery", s.OpIdx)
}

// runQuery runs a complete query and returns the visited labels in order.
func (s *Sim) runQuery(fi *FilterInst, fidx int, w int, rels []relPair, qrels []ecs.Relation, full bool) (order []int, count int, ok bool) {
	f := fi.A
	if w == 1 {
		f = fi.B
	}
	if s.lockDepth >= 64 {
		return nil, 0, false
	}
	var q Querier
	p, val := s.call(func() { q = f.Query(qrels) })
	if p {
		s.violate("C03", "query.exact", "query_panic", true, "Filter.Query panicked: %v", val)
		return nil, 0, false
	}
	oq := &OpenQuery{F: fidx, W: w, Q: q, Rels: rels, Expect: map[int]bool{}, Visited: map[int]int{}}
	for _, l := range s.M.Select(&fi.Spec, rels) {
		oq.Expect[l] = true
	}
	s.lockDepth++
	// Count before iteration
	p, val = s.call(func() { count = q.Count() })
	if p {
		s.violate("C03", "query.count", "panic", true, "Query.Count panicked: %v", val)
		return nil, 0, false
	}
	s.C.Checks["query.count"]++
	if count != len(oq.Expect) {
		s.queryViolation(oq, "count", "Count() = %d, expected %d", count, len(oq.Expect))
	}
	var at []ecs.Entity
	if full && count <= 300 {
		for i := 0; i < count; i++ {
			var e ecs.Entity
			p, val = s.call(func() { e = q.EntityAt(i) })
			if p {
				s.violate("C03", "query.entity_at", "panic", false, "EntityAt(%d) with Count %d panicked: %v", i, count, val)
				break
			}
			at = append(at, e)
		}
		p, _ = s.call(func() { q.EntityAt(count) })
		s.C.Checks["query.entity_at"]++
		if !p {
			s.violate("C03", "query.entity_at", "out_of_range", false, "EntityAt(Count()) did not panic")
		}
	}
	for s.stepQuery(oq) && !s.fatal {
	}
	if full && len(at) == len(oq.Order) {
		for i, e := range at {
			if s.labelOf(e) != oq.Order[i] {
				s.violate("C03", "query.entity_at", "order", false, "EntityAt(%d) = label %d, but the %d-th visited entity is label %d", i, s.labelOf(e), i, oq.Order[i])
				break
			}
		}
	} else if full && count <= 300 && len(at) != len(oq.Order) && !s.fatal {
		s.violate("C03", "query.entity_at", "count", false, "EntityAt enumerated %d entities, iteration visited %d", len(at), len(oq.Order))
	}
	return oq.Order, count, true
}

// opSweep runs every filter pair completely: model vs uncached (C03), cached vs uncached (C05).
func (s *Sim) opSweep(op *Op) {
	for fidx, fi := range s.filters {
		extra, qrB := s.queryRels(fi, op.QR, fi.B)
		rels := append(append([]relPair{}, fi.Rels...), extra...)
		orderB, countB, ok := s.runQuery(fi, fidx, 1, rels, qrB, true)
		if !ok || s.fatal {
			return
		}
		if !fi.Typed() {
			s.tracef("%d Sweep f%d B=%v", s.OpIdx, fidx, orderB)
			continue
		}
		_, qrA := s.queryRels(fi, op.QR, fi.A)
		orderA, countA, ok := s.runQuery(fi, fidx, 0, rels, qrA, true)
		if !ok || s.fatal {
			return
		}
		s.C.Checks["cache.same"]++
		if fi.Registered {
			s.C.Checks["cache.same.registered"]++
		}
		s.tracef("%d Sweep f%d A=%v B=%v", s.OpIdx, fidx, orderA, orderB)
		a, b := sortedCopy(orderA), sortedCopy(orderB)
		if !equalInts(a, b) || countA != countB {
			s.violate("C05", "cache.same", fmt.Sprintf("registered=%v", fi.Registered), false,
				"filter %d (ad=%d ts=%v with=%v wo=%v excl=%v rels=%v registered=%v): registerable twin yields %v (Count %d), never-registered twin yields %v (Count %d)",
				fidx, fi.Spec.Ad, fi.Spec.Ts, fi.Spec.With, fi.Spec.Without, fi.Spec.Excl, rels, fi.Registered, a, countA, b, countB)
		}
	}
	s.tracef("%d Sweep", s.OpIdx)
}

// writeThroughQuery writes new values through the pointers a query yields for
// its current entity (one of the access paths of C01) and updates the model.
func (s *Sim) writeThroughQuery(oq *OpenQuery, op *Op, k int) {
	fi := s.filters[oq.F]
	ts := fi.Spec.Ts
	if len(ts) == 0 || len(oq.Order) == 0 {
		return
	}
	l := oq.Order[len(oq.Order)-1]
	e := s.M.Get(l)
	if e == nil || !e.Alive {
		return
	}
	ptrs := oq.Q.Get()
	u := s.W.Unsafe()
	vals := s.vals(op, len(ts))
	for i, p := range ptrs {
		t := ts[i]
		if U[t].Size == 0 {
			continue
		}
		// only through pointers that are the entity's storage (query.data is checked in stepQuery)
		if p != u.Get(e.H, s.ids[t]) {
			return
		}
		v := vals[i] + uint64(l)<<36 // depends on the entity, not on the position
		U[t].Put(p, v)
		e.Comps[t] = Norm(t, v)
		s.C.Faults["write_through_query_pointer"]++
	}
}

// opBatchUse obtains a Batch from a filter with per-call relation targets and
// discards it, as the first step of any batch operation does. It changes
// nothing in the world; it exercises the filter's internal relation buffer.
func (s *Sim) opBatchUse(op *Op) {
	if len(s.filters) == 0 {
		s.skip(op)
		return
	}
	fi := s.filters[abs(op.F)%len(s.filters)]
	if !fi.Typed() {
		s.skip(op)
		return
	}
	_, qrels := s.queryRels(fi, op.QR, fi.A)
	if len(qrels) == 0 || !fi.A.CanRegister() {
		s.skip(op)
		return
	}
	p, val := s.call(func() { _ = fi.A.Batch(qrels) })
	if p {
		s.violate("C06", "batch.selection", "Batch", false, "Filter.Batch with valid relation targets panicked: %v", val)
	}
	s.C.Faults["filter_batch_use"]++
}
