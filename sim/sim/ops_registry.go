package sim

import (
	"fmt"
	"reflect"

	"github.com/mlange-42/ark/ecs"
)

// Registry scenarios (C18): registration up to and beyond the documented
// maximum, registration on a locked world, stability of IDs.

// MaxComponentTypes is the documented capacity of the build.
func MaxComponentTypes() int {
	if tinyBuild {
		return 64
	}
	return 256
}

func (s *Sim) registered() int { return len(ecs.ComponentIDs(s.W)) }

func (s *Sim) opRegistry(op *Op) {
	s.C.Checks["reg."+op.M]++
	max := MaxComponentTypes()
	if s.Prof.Tiny {
		// histories that must stay within 64 component types in every build (C20)
		if max > 64 {
			if op.M == "overflow" || (op.M == "locked" && s.registered() >= 64) || op.M == "use" {
				s.skip(op)
				return
			}
			max = 64
		} else if op.M == "overflow" || op.M == "use" || (op.M == "locked" && s.registered() >= 64) {
			s.skip(op)
			return
		}
	}
	switch op.M {
	case "fill":
		// register up to n further dynamic types; IDs must be sequential
		n := abs(op.N)%40 + 1
		if op.N < 0 {
			n = max
		}
		if s.locked() {
			s.skip(op)
			return
		}
		// mappers that exist before further types are registered must stay usable afterwards
		tmaxU := 0
		for t := 1; t < NumTypes; t++ {
			if s.ids[t].Index() > s.ids[tmaxU].Index() {
				tmaxU = t
			}
		}
		s.mapper(tmaxU)
		s.mapper(2)
		startCount := s.registered()
		defer func() {
			if s.registered() > startCount && !s.fatal && !s.locked() && (s.Prof.Name == "C18" || s.Prof.Name == "default" || s.Prof.Name == "C20") {
				s.useAfterRegistration(tmaxU, op)
			}
		}()
		for i := 0; i < n && s.registered() < max; i++ {
			want := s.registered()
			k := len(s.pads)
			var id ecs.ID
			p, val := s.call(func() { id = ecs.TypeID(s.W, PadType(k)) })
			if p {
				s.violate("C18", "reg.capacity", "fill", false, "registering component type number %d of %d panicked: %v", want+1, max, val)
				return
			}
			s.pads = append(s.pads, id)
			if int(id.Index()) != want || s.registered() != want+1 {
				s.violate("C18", "reg.stable", "sequential", false, "type number %d got ID %d; %d IDs registered afterwards", want+1, id.Index(), s.registered())
				return
			}
		}
		if s.registered() == max {
			s.C.Checks["reg.capacity"]++
			s.C.Faults["registry_full"]++
		}
	case "use":
		// reg.capacity: with the registry full, the highest IDs are usable in entities,
		// filters and queries (a new archetype is created while all IDs are assigned)
		if s.registered() < max || s.locked() {
			s.skip(op)
			return
		}
		tmax := 0
		for t := 1; t < NumTypes; t++ {
			if s.ids[t].Index() > s.ids[tmax].Index() {
				tmax = t
			}
		}
		other := abs(op.N) % NumTypes
		cs := []int{tmax}
		if other != tmax && !U[other].IsRel {
			cs = append(cs, other)
		}
		if U[tmax].IsRel {
			cs = []int{tmax}
		}
		n := len(s.M.Ents)
		sub := Op{K: KNewEntity, P: PUnsafe, Cs: cs, Ts: []int{-1}, RS: RSID, Vs: []uint64{uint64(op.N)*2 + 1, 77}}
		p, val := s.call(func() { s.opNewEntity(&sub) })
		if p || s.fatal || len(s.M.Ents) != n+1 {
			s.violate("C18", "reg.capacity", "use/create", true, "with all %d component types registered, creating an entity with component ID %d failed: %v", max, s.ids[tmax].Index(), val)
			return
		}
		e := s.M.Ents[n]
		s.C.Checks["reg.capacity.use"]++
		p, val = s.call(func() {
			u := s.W.Unsafe()
			for _, c := range cs {
				if !u.Has(e.H, s.ids[c]) {
					panic(fmt.Sprintf("Has(ID %d) is false", s.ids[c].Index()))
				}
				if got := U[c].Get(u.Get(e.H, s.ids[c])); got != e.Comps[c] {
					panic(fmt.Sprintf("component ID %d reads %#x, written %#x", s.ids[c].Index(), got, e.Comps[c]))
				}
			}
			f := NewUnsafeFilterAd(s.W, s.idFn(), []int{tmax})
			q := f.Query(nil)
			found := false
			for q.Next() {
				if q.Entity() == e.H {
					found = true
				}
			}
			if !found {
				panic(fmt.Sprintf("a query for component ID %d does not find the entity", s.ids[tmax].Index()))
			}
		})
		if p {
			s.violate("C18", "reg.capacity", "use", true, "with all %d component types registered, an entity created with component IDs %v is not usable: %v", max, s.idsOf(cs), val)
			return
		}
	case "overflow":
		if s.registered() < max {
			s.skip(op)
			return
		}
		s.C.Faults["misuse_registry_overflow"]++
		before := s.registered()
		k := len(s.pads) + 1000 + abs(op.N)%7
		p, _ := s.call(func() { ecs.TypeID(s.W, PadType(k)) })
		if !p {
			s.violate("C18", "reg.overflow", "no_panic", false, "registering type number %d did not panic", before+1)
		}
		if s.registered() != before {
			s.violate("C18", "reg.overflow", "consumed", false, "failed registration changed the number of IDs from %d to %d", before, s.registered())
		}
		if _, ok := ecs.ComponentInfo(s.W, s.ids[0]); !ok {
			s.violate("C18", "reg.overflow", "info", false, "ComponentInfo of a registered type is gone after an overflow")
		}
	case "locked":
		if !s.locked() || s.registered() >= max {
			s.skip(op)
			return
		}
		s.C.Faults["misuse_register_while_locked"]++
		before := s.registered()
		k := len(s.pads)
		p, _ := s.call(func() { ecs.TypeID(s.W, PadType(k)) })
		if !p {
			s.violate("C18", "reg.locked", "no_panic", false, "registering a new component type on a locked world did not panic")
			s.pads = append(s.pads, ecs.TypeID(s.W, PadType(k)))
			return
		}
		if s.registered() != before {
			s.violate("C18", "reg.locked", "consumed", false, "failed registration on a locked world changed the number of IDs from %d to %d", before, s.registered())
		}
		// asking again for the same type right away (no other lookup in between) must fail the same way
		p, _ = s.call(func() { ecs.TypeID(s.W, PadType(k)) })
		if !p {
			s.violate("C18", "reg.locked", "retry_no_panic", false, "the second attempt to register the same new component type on a locked world did not panic")
		}
		if s.registered() != before {
			s.violate("C18", "reg.locked", "retry_consumed", false, "a repeated failed registration on a locked world changed the number of IDs from %d to %d", before, s.registered())
		}
		// registering an already registered type is not a structural change
		p, _ = s.call(func() {
			if got := U[2].ID(s.W); got != s.ids[2] {
				panic("changed")
			}
		})
		if p {
			s.violate("C18", "reg.stable", "locked_lookup", false, "looking up the ID of a registered type on a locked world failed")
		}
	case "stable":
		for t := 0; t < NumTypes; t++ {
			if got := U[t].ID(s.W); got != s.ids[t] {
				s.violate("C18", "reg.stable", "universe", false, "type T%02d had ID %d, now %d", t, s.ids[t].Index(), got.Index())
				return
			}
			if got := ecs.TypeID(s.W, U[t].Type); got != s.ids[t] {
				s.violate("C18", "reg.stable", "typeid", false, "TypeID of T%02d is %d, ComponentID gave %d", t, got.Index(), s.ids[t].Index())
				return
			}
			info, ok := ecs.ComponentInfo(s.W, s.ids[t])
			if !ok || info.Type != U[t].Type || info.IsRelation != U[t].IsRel || info.ID != s.ids[t] {
				s.violate("C18", "reg.stable", "info", false, "ComponentInfo(%d) = %+v ok=%v, expected type %v relation=%v", s.ids[t].Index(), info, ok, U[t].Type, U[t].IsRel)
				return
			}
		}
		seen := map[uint8]reflect.Type{}
		for i, id := range s.pads {
			if !s.locked() || true {
				if got := ecs.TypeID(s.W, PadType(i)); got != id {
					s.violate("C18", "reg.stable", "pad", false, "dynamic type %d had ID %d, now %d", i, id.Index(), got.Index())
					return
				}
			}
			seen[id.Index()] = PadType(i)
		}
		for t := 0; t < NumTypes; t++ {
			if _, dup := seen[s.ids[t].Index()]; dup {
				s.violate("C18", "reg.stable", "distinct", false, "ID %d is assigned to two types", s.ids[t].Index())
				return
			}
			seen[s.ids[t].Index()] = U[t].Type
		}
		ids := ecs.ComponentIDs(s.W)
		if len(ids) != len(seen) {
			s.violate("C18", "reg.stable", "count", false, "ComponentIDs lists %d IDs, %d types were registered", len(ids), len(seen))
			return
		}
		for i, id := range ids {
			if int(id.Index()) != i {
				s.violate("C18", "reg.stable", "order", false, "ComponentIDs[%d] = %d", i, id.Index())
				return
			}
		}
		if _, ok := ecs.ComponentInfo(s.W, idAt(len(ids))); ok && len(ids) < MaxComponentTypes() {
			s.violate("C18", "reg.stable", "unassigned", false, "ComponentInfo reports unassigned ID %d as assigned", len(ids))
		}
	case "res_fill":
		// the resource registry: sequential distinct IDs up to the documented maximum, overflow
		// panics without consuming an ID, the highest ID is usable
		for j := range s.resMaps {
			s.res(j) // the typed resources of the harness take their IDs first
		}
		n := abs(op.N)%60 + 1
		if op.N%3 == 0 && !s.Prof.Tiny {
			n = max
		}
		for i := 0; i < n; i++ {
			have := len(ecs.ResourceIDs(s.W))
			if have >= max || (s.Prof.Tiny && have >= 60) {
				break
			}
			k := len(s.resPads)
			var id ecs.ResID
			p, val := s.call(func() { id = ecs.ResourceTypeID(s.W, PadType(k)) })
			if p {
				s.violate("C18", "reg.capacity", "res_fill", false, "registering resource type number %d of %d panicked: %v", have+1, max, val)
				return
			}
			s.resPads = append(s.resPads, id)
			ids := ecs.ResourceIDs(s.W)
			if len(ids) != have+1 || ids[have] != id {
				s.violate("C18", "reg.stable", "res_sequential", false, "resource type number %d got ID %v; ResourceIDs=%d entries afterwards", have+1, id, len(ids))
				return
			}
		}
		seen := map[ecs.ResID]bool{}
		for _, id := range ecs.ResourceIDs(s.W) {
			if seen[id] {
				s.violate("C18", "reg.stable", "res_distinct", false, "resource ID %v is listed twice", id)
				return
			}
			seen[id] = true
		}
		for i, id := range s.resPads {
			if got := ecs.ResourceTypeID(s.W, PadType(i)); got != id {
				s.violate("C18", "reg.stable", "res_pad", false, "dynamic resource type %d had ID %v, now %v", i, id, got)
				return
			}
			if tp, ok := ecs.ResourceType(s.W, id); !ok || tp != PadType(i) {
				s.violate("C18", "reg.stable", "res_type", false, "ResourceType(%v) = (%v,%v), expected %v", id, tp, ok, PadType(i))
				return
			}
		}
		if have := len(ecs.ResourceIDs(s.W)); have == max && len(s.resPads) > 0 {
			s.C.Faults["resource_registry_full"]++
			k := len(s.resPads) + 2000 + abs(op.N)%5
			p, _ := s.call(func() { ecs.ResourceTypeID(s.W, PadType(k)) })
			if !p {
				s.violate("C18", "reg.overflow", "res_no_panic", false, "registering resource type number %d did not panic", have+1)
			}
			if got := len(ecs.ResourceIDs(s.W)); got != have {
				s.violate("C18", "reg.overflow", "res_consumed", false, "failed resource registration changed the number of IDs from %d to %d", have, got)
				return
			}
		}
		if len(s.resPads) > 0 {
			// the highest dynamic resource ID holds exactly one resource, like a map entry
			id := s.resPads[len(s.resPads)-1]
			v := new(uint64)
			*v = uint64(op.N) + 5
			rs := s.W.Resources()
			p, val := s.call(func() {
				if rs.Has(id) {
					panic("Has is true before Add")
				}
				rs.Add(id, v)
				if !rs.Has(id) || rs.Get(id) != any(v) {
					panic("Get/Has after Add")
				}
			})
			if p {
				s.violate("C18", "res.map", "highest_id", false, "resource with the highest ID %v (of %d): %v", id, len(ecs.ResourceIDs(s.W)), val)
				return
			}
			if p, _ := s.call(func() { rs.Add(id, v) }); !p {
				s.violate("C18", "res.map", "highest_id/dup_add", false, "adding the resource with ID %v twice did not panic", id)
			}
			p, val = s.call(func() {
				rs.Remove(id)
				if rs.Has(id) || rs.Get(id) != nil {
					panic("Has/Get after Remove")
				}
			})
			if p {
				s.violate("C18", "res.map", "highest_id/remove", false, "resource with the highest ID %v: %v", id, val)
				return
			}
			// the typed resources are untouched
			for j := range s.resMaps {
				if s.resMaps[j].add == nil {
					continue
				}
				want, ok := s.M.Res[j]
				got, gok := s.resMaps[j].get()
				if gok != ok || (ok && got != want) {
					s.violate("C18", "res.map", "highest_id/others", false, "resource %d changed by operations on another resource ID: (%#x,%v), expected (%#x,%v)", j, got, gok, want, ok)
					return
				}
			}
		}
	default:
		s.skip(op)
		return
	}
	s.tracef("%d Registry %s n=%d", s.OpIdx, op.M, s.registered())
}

// idAt builds the ID with the given index from an ID list position (IDs are opaque).
func idAt(i int) ecs.ID {
	if i > 255 {
		i = 255
	}
	return idCache[i]
}

var idCache [256]ecs.ID

func init() {
	// ecs.ID has no public constructor; obtain all 256 values from a scratch world.
	w := ecs.NewWorld(1)
	n := 256
	if tinyBuild {
		n = 64
	}
	for i := 0; i < n; i++ {
		idCache[i] = ecs.TypeID(w, PadType(5000+i))
	}
	_ = fmt.Sprint
}

// useAfterRegistration: after further component types were registered, an entity in a
// new archetype is created and read through mappers that existed before (C18 reg.capacity).
// lateType (wave 13, C18-l): a component type registered when the world already has relation tables (more
// tables than archetypes) or freed tables is usable: an entity created with it is readable and writable.
// Runs in a world of its own, shaped by the op's numbers, so the simulated world's history is not disturbed.
type lateT struct{ V uint8 }

func (s *Sim) lateType(op *Op) {
	rel := -1
	for t := 0; t < NumTypes; t++ {
		if U[t].IsRel {
			rel = t
			break
		}
	}
	if rel < 0 {
		return
	}
	s.C.Checks["reg.capacity.late_type"]++
	nt, early := abs(op.N)%5, abs(op.N/5)%4
	p, val := s.call(func() {
		w := ecs.NewWorld(2)
		u := w.Unsafe()
		relID := ecs.TypeID(w, U[rel].Type)
		for i := 0; i < early; i++ {
			ecs.TypeID(w, PadType(300+i))
		}
		var targets []ecs.Entity
		for i := 0; i < nt; i++ {
			targets = append(targets, u.NewEntity())
		}
		var kids []ecs.Entity
		for _, t := range targets {
			kids = append(kids, u.NewEntityRel([]ecs.ID{relID}, ecs.RelID(relID, t)))
		}
		if nt > 2 && op.N%2 == 0 {
			// a freed table: the only child of the first target goes away with its target
			w.RemoveEntity(kids[0])
			w.RemoveEntity(targets[0])
			kids, targets = kids[1:], targets[1:]
		}
		late := ecs.TypeID(w, PadType(8+abs(op.N)%3))
		e := u.NewEntity(late)
		ptr := (*uint8)(u.Get(e, late))
		*ptr = 0xA5
		for i, k := range kids {
			if u.Has(k, late) {
				panic(fmt.Sprintf("child %d has the late type", i))
			}
			if got := u.GetRelation(k, relID); got != targets[i] {
				panic(fmt.Sprintf("child %d has target %v, expected %v", i, got, targets[i]))
			}
			u.Add(k, late)
			*(*uint8)(u.Get(k, late)) = uint8(i + 1)
		}
		for i, k := range kids {
			if got := *(*uint8)(u.Get(k, late)); got != uint8(i+1) {
				panic(fmt.Sprintf("child %d reads %d from the late type, wrote %d", i, got, i+1))
			}
		}
		if got := *(*uint8)(u.Get(e, late)); got != 0xA5 {
			panic(fmt.Sprintf("entity reads %#x from the late type, wrote 0xa5", got))
		}
		// the same through the typed mappers, which resolve columns through the storage's per-component lookup
		m1 := ecs.NewMap1[lateT](w)
		e1 := m1.NewEntity(&lateT{V: 0x5A})
		if v := m1.Get(e1); v == nil || v.V != 0x5A {
			panic(fmt.Sprintf("Map1.Get of the late typed component gives %v", v))
		}
		if v := ecs.NewMap[lateT](w).Get(e1); v == nil || v.V != 0x5A {
			panic(fmt.Sprintf("Map.Get of the late typed component gives %v", v))
		}
		for i, k := range kids {
			m1.Add(k, &lateT{V: uint8(i + 9)})
		}
		for i, k := range kids {
			if v := m1.Get(k); v.V != uint8(i+9) {
				panic(fmt.Sprintf("child %d reads %d from the late typed component, wrote %d", i, v.V, i+9))
			}
		}
	})
	if p {
		s.violate("C18", "reg.capacity", "late_type", true, "a component type registered after %d relation tables existed cannot be used: %v", nt, val)
	}
}

func (s *Sim) useAfterRegistration(tmax int, op *Op) {
	s.lateType(op)
	if s.fatal {
		return
	}
	cs := []int{tmax}
	other := abs(op.N+7) % NumTypes
	if other != tmax && !U[other].IsRel && !U[tmax].IsRel {
		cs = append(cs, other)
	}
	n := len(s.M.Ents)
	sub := Op{K: KNewEntity, P: PUnsafe, Cs: cs, Ts: []int{-1}, RS: RSID, Vs: []uint64{uint64(abs(op.N))*2 + 3, 79}}
	p, val := s.call(func() { s.opNewEntity(&sub) })
	if p || s.fatal || len(s.M.Ents) != n+1 {
		s.violate("C18", "reg.capacity", "after_fill/create", true, "after registering further component types (%d registered), creating an entity with component ID %d failed: %v", s.registered(), s.ids[tmax].Index(), val)
		return
	}
	e := s.M.Ents[n]
	s.C.Checks["reg.capacity.after_fill"]++
	p, val = s.call(func() {
		u := s.W.Unsafe()
		for _, c := range cs {
			ptrs := s.mapper(c).Get(e.H)
			if ptrs[0] != u.Get(e.H, s.ids[c]) {
				panic(fmt.Sprintf("Map.Get for component ID %d returns %x, Unsafe.Get %x", s.ids[c].Index(), ptrOf(ptrs[0]), ptrOf(u.Get(e.H, s.ids[c]))))
			}
		}
	})
	if p {
		s.violate("C18", "reg.capacity", "after_fill/use", true, "after registering further component types (%d registered), a mapper created before cannot access a new entity: %v", s.registered(), val)
	}
	if s.fatal {
		return
	}
	// Entities in tables that are older than the registration answer questions about the
	// latest registered ID (the highest one, possibly in another mask word than all IDs the
	// table was created with).
	var hi ecs.ID
	for i, id := range ecs.ComponentIDs(s.W) {
		if i == 0 || id.Index() > hi.Index() {
			hi = id
		}
	}
	hiT := -1
	for t := 0; t < NumTypes; t++ {
		if s.ids[t] == hi {
			hiT = t
		}
	}
	p, val = s.call(func() {
		u := s.W.Unsafe()
		for k := 0; k < 8; k++ {
			x := s.M.PickLive(abs(op.N) + k*7)
			if x == nil {
				return
			}
			want := hiT >= 0 && x.Has(hiT)
			if got := u.Has(x.H, hi); got != want {
				panic(fmt.Sprintf("Unsafe.Has(%v, ID %d) = %v, expected %v", x.H, hi.Index(), got, want))
			}
			if got := u.HasUnchecked(x.H, hi); got != want {
				panic(fmt.Sprintf("Unsafe.HasUnchecked(%v, ID %d) = %v, expected %v", x.H, hi.Index(), got, want))
			}
		}
	})
	if p {
		s.violate("C18", "reg.capacity", "after_fill/has", true, "after registering further component types (%d registered), asking an older entity for the highest ID failed: %v", s.registered(), val)
	}
}
