package sim

import (
	"encoding/json"
	"fmt"
	"reflect"
	"sort"
	"time"
	"unsafe"

	"github.com/mlange-42/ark/ecs"
)

// Reset, Shrink, Stats, dump/load, resources, GC, codecs.

func (s *Sim) opReset(op *Op) {
	t := s.newTxn(KReset)
	s.count("World.Reset")
	if !s.structural(op, t, func() { s.W.Reset() }) {
		return
	}
	s.C.Faults["reset"]++
	for _, o := range s.observers {
		if o.Registered {
			s.C.Faults["reset_with_observer_"+EvName(o.Spec.Ev)]++
		}
		o.Registered = false
	}
	// Filters that fix a non-zero relation target hold a handle of the ended
	// epoch; using them afterwards is outside the contract, so they are dropped.
	var keep []*FilterInst
	for _, f := range s.filters {
		stale := false
		for _, r := range f.Rels {
			if r.Label != 0 {
				stale = true
			}
		}
		if f.Registered {
			s.C.Faults["reset_with_cached_filter"]++
		}
		f.Registered = false
		if !stale {
			keep = append(keep, f)
		}
	}
	s.filters = keep
	s.queries = nil
	s.lastReset = s.OpIdx
	snap := &resetSnapshot{pads: len(s.pads)}
	for _, f := range s.filters {
		snap.filters = append(snap.filters, f.Spec)
	}
	for _, o := range s.observers {
		o.Calls = 0
		snap.observers = append(snap.observers, &ObsInst{Spec: o.Spec, Script: o.Script, Invalid: o.Invalid})
	}
	s.resetSnap = snap
	s.M.Reset()
	s.lockDepth = 0
	// reset.empty
	st := s.W.Stats()
	s.C.Checks["reset.empty"]++
	if st.Entities.Used != 0 || st.CachedFilters != 0 || st.Observers != 0 || st.Locked || s.W.IsLocked() {
		s.violate("C16", "reset.empty", fmt.Sprintf("used=%v/filters=%v/observers=%v/locked=%v", st.Entities.Used != 0, st.CachedFilters != 0, st.Observers != 0, st.Locked), false,
			"after Reset: Used=%d CachedFilters=%d Observers=%d Locked=%v", st.Entities.Used, st.CachedFilters, st.Observers, st.Locked)
	}
	if st.Entities.Total != 0 || st.Entities.Recycled != 0 {
		// (as on a new world: LoadEntities, for one, accepts only a world whose pool is empty)
		s.violate("C16", "reset.empty", "pool", false, "after Reset the entity pool still holds entities: Total=%d Recycled=%d", st.Entities.Total, st.Entities.Recycled)
	}
	if n := len(s.allHandles()); n != 0 {
		s.violate("C16", "reset.empty", "filter0", false, "after Reset a Filter0 query still visits %d entities", n)
	}
	for i := range s.resMaps {
		if s.resHas(i) {
			s.violate("C16", "reset.empty", "resource", false, "after Reset resource %d is still present", i)
		}
	}
	s.tracef("%d Reset", s.OpIdx)
}

func (s *Sim) initCaps() (int, int) {
	c, r := s.Cfg.Cap, s.Cfg.RelCap
	if c <= 0 {
		return 1024, 128
	}
	if r <= 0 {
		r = c
	}
	return c, r
}

// nextPow2Strict returns the smallest power of two strictly greater than n.
func nextPow2Strict(n int) int {
	p := 1
	for p <= n {
		p *= 2
	}
	return p
}

type tableCap struct{ arch, size, cap int }

func (s *Sim) tableCaps() []tableCap {
	st := s.W.Stats()
	var out []tableCap
	for i := range st.Archetypes {
		a := &st.Archetypes[i]
		for j := range a.Tables {
			out = append(out, tableCap{i, a.Tables[j].Size, a.Tables[j].Capacity})
		}
		// free tables are not listed individually; their capacity is part of the archetype's
		out = append(out, tableCap{i, -1 - a.FreeTables, a.Capacity})
	}
	return out
}

func (s *Sim) opShrink(op *Op) {
	if s.Flags.DropShrink {
		s.skip(op)
		return
	}
	if s.locked() {
		// Shrink re-allocates table columns and frees tables: with a query open it is a
		// structure-changing operation like any other (an open query caches column
		// pointers) and must panic without effect (C07 lock.blocks).
		// Either it is rejected like other structural operations, or it must leave every
		// open query intact: the pointers a positioned query yields are still the entity's storage.
		s.C.Faults["shrink_while_locked"]++
		p, _ := s.call(func() { s.W.Shrink() })
		if p {
			return
		}
		u := s.W.Unsafe()
		for _, oq := range s.queries {
			if oq.Done || !oq.OnEntity {
				continue
			}
			h := oq.Q.Entity()
			ts := s.filters[oq.F].Spec.Ts
			for i, ptr := range oq.Q.Get() {
				if U[ts[i]].Size == 0 {
					continue
				}
				if want := u.Get(h, s.ids[ts[i]]); ptr != want {
					s.violate("C07", "lock.allows", "Shrink/stale_query_pointers", true,
						"Shrink succeeded on a world locked by %d open queries and invalidated them: an open query's pointer for T%02d of entity %v is %x, the entity's storage is %x (writes through the query are lost)", s.lockDepth, ts[i], h, ptrOf(ptr), ptrOf(want))
					return
				}
			}
		}
		return
	}
	s.C.Faults["shrink"]++
	capN, capR := s.initCaps()
	if op.M == "converge" {
		// shrink.converges: repeated time-limited calls report "no work left" within a bound.
		limit := time.Duration(abs(op.N)%50+5) * time.Second
		st := s.W.Stats()
		tables := 0
		for i := range st.Archetypes {
			tables += len(st.Archetypes[i].Tables) + st.Archetypes[i].FreeTables
		}
		bound := 2*tables + 2
		calls := 0
		more := true
		for more && calls <= bound {
			s.skews = op.Sk
			if calls > 0 && len(op.Sk) > 0 {
				// rotate the skew list so that jumps land at different positions
				k := calls % len(op.Sk)
				s.skews = append(append([]int{}, op.Sk[k:]...), op.Sk[:k]...)
			}
			s.skewUsed = 0
			p, val := s.call(func() { more = s.W.Shrink(limit) })
			s.skews = nil
			if p {
				s.violate("C15", "shrink.no_failure", "converge", true, "Shrink panicked: %v", val)
				return
			}
			calls++
		}
		s.C.Checks["shrink.converges"]++
		if more {
			s.violate("C15", "shrink.converges", "bound", false, "time-limited Shrink(%v) still reports remaining work after %d calls on a world with %d tables (skews %v)", limit, calls, tables, op.Sk)
		} else {
			before := s.tableCaps()
			s.W.Shrink()
			after := s.tableCaps()
			if !reflect.DeepEqual(before, after) {
				s.violate("C15", "shrink.converges", "work_left", false, "Shrink reported no remaining work, but a following unbounded Shrink changed table capacities: before %v after %v", before, after)
			}
		}
		s.tracef("%d Shrink converge calls=%d", s.OpIdx, calls)
		return
	}
	var more bool
	s.skews = op.Sk
	s.skewUsed = 0
	p, val := s.call(func() {
		switch {
		case op.N < 0:
			more = s.W.Shrink()
		case op.N == 0:
			more = s.W.Shrink(0)
		default:
			more = s.W.Shrink(time.Duration(op.N) * time.Second)
		}
	})
	s.skews = nil
	if p {
		s.violate("C15", "shrink.no_failure", "shrink", true, "Shrink panicked: %v", val)
		return
	}
	if op.N < 0 {
		s.C.Checks["shrink.bounds"]++
		st := s.W.Stats()
		for i := range st.Archetypes {
			a := &st.Archetypes[i]
			init := capN
			if a.NumRelations > 0 {
				init = capR
			}
			for j := range a.Tables {
				tb := &a.Tables[j]
				maxCap := nextPow2Strict(tb.Size)
				if init > maxCap {
					maxCap = init
				}
				if tb.Capacity < tb.Size || tb.Capacity > maxCap {
					s.violate("C15", "shrink.bounds", "capacity", false, "after unbounded Shrink table %d of archetype %d has Size %d Capacity %d (initial capacity %d)", j, i, tb.Size, tb.Capacity, init)
					return
				}
			}
		}
		if more {
			s.violate("C15", "shrink.bounds", "more", false, "unbounded Shrink reports remaining work")
		}
	}
	s.tracef("%d Shrink n=%d more=%v", s.OpIdx, op.N, more)
}

func (s *Sim) opStats(op *Op) {
	if s.Flags.DropStats {
		s.skip(op)
		return
	}
	s.checkStats()
	s.tracef("%d Stats %s", s.OpIdx, s.lastStats)
}

// StatsDump renders the parts of World.Stats() that are pure functions of the history.
func (s *Sim) StatsDump() string {
	st := s.W.Stats()
	b, _ := json.Marshal(st)
	return string(b)
}

// checkStats evaluates the C19 invariants on a fresh Stats() call.
func (s *Sim) checkStats() {
	st := s.W.Stats()
	s.statsCalls++
	s.C.Checks["stats.invariants"]++
	bad := func(sig, format string, args ...any) {
		s.violate("C19", "stats.invariants", sig, false, format, args...)
	}
	alive := len(s.M.Live)
	en := st.Entities
	if en.Used != alive {
		bad("used", "Entities.Used = %d, alive entities = %d", en.Used, alive)
	}
	if en.Total != en.Used+en.Recycled || en.Total > en.Capacity {
		bad("total", "Entities: Used %d Recycled %d Total %d Capacity %d", en.Used, en.Recycled, en.Total, en.Capacity)
	}
	sumArch := 0
	seen := map[string]int{}
	mem, memUsed := 0, 0
	for i := range st.Archetypes {
		a := &st.Archetypes[i]
		sumArch += a.Size
		ids := append([]uint8{}, a.ComponentIDs...)
		sort.Slice(ids, func(x, y int) bool { return ids[x] < ids[y] })
		k := fmt.Sprint(ids)
		if j, dup := seen[k]; dup {
			bad("duplicate_archetype", "archetypes %d and %d have the same component set %v", j, i, ids)
		}
		seen[k] = i
		per := int(unsafe.Sizeof(ecs.Entity{}))
		for _, id := range a.ComponentIDs {
			if int(id) < len(st.ComponentTypes) && st.ComponentTypes[id] != nil {
				per += int(st.ComponentTypes[id].Size())
			}
		}
		if a.MemoryPerEntity != per {
			bad("mem_per_entity", "archetype %d MemoryPerEntity %d, expected %d", i, a.MemoryPerEntity, per)
		}
		sumT, capT := 0, 0
		for j := range a.Tables {
			tb := &a.Tables[j]
			sumT += tb.Size
			capT += tb.Capacity
			if tb.Size > tb.Capacity {
				bad("table_cap", "archetype %d table %d Size %d > Capacity %d", i, j, tb.Size, tb.Capacity)
			}
			if tb.Memory != tb.Capacity*a.MemoryPerEntity || tb.MemoryUsed != tb.Size*a.MemoryPerEntity {
				bad("table_mem", "archetype %d table %d: Memory %d MemoryUsed %d, Capacity %d Size %d, per entity %d", i, j, tb.Memory, tb.MemoryUsed, tb.Capacity, tb.Size, a.MemoryPerEntity)
			}
		}
		if sumT != a.Size {
			bad("arch_size", "archetype %d Size %d, sum of its tables %d", i, a.Size, sumT)
		}
		if a.Capacity < capT {
			bad("arch_cap", "archetype %d Capacity %d < sum of table capacities %d", i, a.Capacity, capT)
		}
		if a.FreeTables == 0 && a.Capacity != capT {
			bad("arch_cap", "archetype %d (no free tables) Capacity %d != sum of table capacities %d", i, a.Capacity, capT)
		}
		if a.Memory != a.Capacity*a.MemoryPerEntity {
			bad("arch_mem", "archetype %d Memory %d != Capacity %d * MemoryPerEntity %d", i, a.Memory, a.Capacity, a.MemoryPerEntity)
		}
		if a.MemoryUsed != a.Size*a.MemoryPerEntity {
			bad("arch_mem_used", "archetype %d MemoryUsed %d != Size %d * MemoryPerEntity %d", i, a.MemoryUsed, a.Size, a.MemoryPerEntity)
		}
		mem += a.Memory
		memUsed += a.MemoryUsed
	}
	if sumArch != en.Used {
		bad("sum_arch", "sum of archetype sizes %d != Entities.Used %d", sumArch, en.Used)
	}
	if st.Memory < mem || st.MemoryUsed < memUsed {
		bad("world_mem", "world Memory %d / MemoryUsed %d below the sums over archetypes %d / %d", st.Memory, st.MemoryUsed, mem, memUsed)
	}
	if en.Used > 0 && (st.MemoryUsed-memUsed)%en.Used != 0 {
		bad("world_mem_used", "world MemoryUsed %d minus archetypes %d is not a constant per entity (%d entities)", st.MemoryUsed, memUsed, en.Used)
	}
	reg := 0
	for _, f := range s.filters {
		if f.Registered {
			reg++
		}
	}
	if !s.Flags.VirtualCache && st.CachedFilters != reg {
		s.violate("C05", "cache.stats", "count", false, "Stats().CachedFilters = %d, registered filters = %d", st.CachedFilters, reg)
	}
	obs := 0
	for _, o := range s.observers {
		if o.Registered {
			obs++
		}
	}
	if st.Observers != obs {
		bad("observers", "Stats().Observers = %d, registered observers = %d", st.Observers, obs)
	}
	if st.Locked != s.locked() {
		bad("locked", "Stats().Locked = %v, expected %v", st.Locked, s.locked())
	}
	b, _ := json.Marshal(st)
	s.lastStats = string(b)
}

// ---------------------------------------------------------------------------
// Resources (C18 res.map)

type resAd struct {
	add    func(v uint64)
	remove func()
	get    func() (uint64, bool)
	has    func() bool   // Resource[T].Has
	hasID  func() bool   // Resources.Has (ID-based)
	reg    func() string // registry functions agree about this type ("" if so)
}

type (
	R0 struct{ V uint64 }
	R1 struct{ V uint64 }
	R2 struct{ P *Obj }
	R3 struct{ V uint64 }
)

func mkRes[T any](w *ecs.World, put func(*T, uint64), get func(*T) uint64) resAd {
	r := ecs.NewResource[T](w)
	calls := 0
	return resAd{
		add: func(v uint64) {
			var x T
			put(&x, v)
			calls++
			switch calls % 3 {
			case 0:
				r.Add(&x) // Resource[T]
			case 1:
				ecs.AddResource(w, &x) // generic function
			default:
				w.Resources().Add(ecs.ResourceID[T](w), &x) // ID-based
			}
		},
		remove: func() {
			calls++
			if calls%2 == 0 {
				r.Remove()
			} else {
				w.Resources().Remove(ecs.ResourceID[T](w))
			}
		},
		get: func() (uint64, bool) {
			p := r.Get()
			g := ecs.GetResource[T](w)
			raw := w.Resources().Get(ecs.ResourceID[T](w))
			if (p == nil) != (g == nil) || (p == nil) != (raw == nil) || (p != nil && (p != g || raw.(*T) != p)) {
				return 0xBAD0BAD0, p != nil
			}
			if p == nil {
				return 0, false
			}
			return get(p), true
		},
		has:   func() bool { return r.Has() },
		hasID: func() bool { return w.Resources().Has(ecs.ResourceID[T](w)) },
		reg: func() string {
			id := ecs.ResourceID[T](w)
			tp := reflect.TypeFor[T]()
			if id2 := ecs.ResourceTypeID(w, tp); id2 != id {
				return fmt.Sprintf("ResourceTypeID=%v but ResourceID=%v for %v", id2, id, tp)
			}
			if got, ok := ecs.ResourceType(w, id); !ok || got != tp {
				return fmt.Sprintf("ResourceType(%v)=(%v,%v), expected %v", id, got, ok, tp)
			}
			n := 0
			for _, x := range ecs.ResourceIDs(w) {
				if x == id {
					n++
				}
			}
			if n != 1 {
				return fmt.Sprintf("ResourceIDs lists %v %d times", id, n)
			}
			return ""
		},
	}
}

func (s *Sim) res(i int) *resAd {
	if s.resMaps[i].add == nil {
		switch i {
		case 0:
			s.resMaps[i] = mkRes(s.W, func(p *R0, v uint64) { p.V = v }, func(p *R0) uint64 { return p.V })
		case 1:
			s.resMaps[i] = mkRes(s.W, func(p *R1, v uint64) { p.V = v }, func(p *R1) uint64 { return p.V })
		case 2:
			s.resMaps[i] = mkRes(s.W, func(p *R2, v uint64) { p.P = &Obj{Magic: objMagic, V: v, Inv: ^v} }, func(p *R2) uint64 { return p.P.V })
		default:
			s.resMaps[i] = mkRes(s.W, func(p *R3, v uint64) { p.V = v }, func(p *R3) uint64 { return p.V })
		}
	}
	return &s.resMaps[i]
}

func (s *Sim) resHas(i int) bool {
	if s.resMaps[i].add == nil {
		return false
	}
	return s.resMaps[i].has()
}

func (s *Sim) opResource(op *Op) {
	i := abs(op.N) % len(s.resMaps)
	r := s.res(i)
	_, present := s.M.Res[i]
	s.C.Checks["res.map"]++
	switch op.M {
	case "add":
		v := op.X | 1
		p, _ := s.call(func() { r.add(v) })
		if present {
			s.C.Faults["misuse_res_dup"]++
			if !p {
				s.violate("C18", "res.map", "dup_add", false, "adding resource %d twice did not panic", i)
			}
		} else {
			if p {
				s.violate("C18", "res.map", "add", false, "adding resource %d panicked", i)
				return
			}
			s.M.Res[i] = v
		}
	case "remove":
		p, _ := s.call(func() { r.remove() })
		if !present {
			s.C.Faults["misuse_res_missing"]++
			if !p {
				s.violate("C18", "res.map", "missing_remove", false, "removing absent resource %d did not panic", i)
			}
		} else {
			if p {
				s.violate("C18", "res.map", "remove", false, "removing resource %d panicked", i)
				return
			}
			delete(s.M.Res, i)
		}
	}
	for j := range s.resMaps {
		rr := s.res(j)
		want, ok := s.M.Res[j]
		got, gok := rr.get()
		if msg := rr.reg(); msg != "" {
			s.violate("C18", "reg.stable", "resource", false, "resource %d: %s", j, msg)
			return
		}
		if rr.has() != ok || rr.hasID() != ok || gok != ok || (ok && got != want) {
			s.violate("C18", "res.map", "state", false, "resource %d: Has=%v Get=(%#x,%v), expected present=%v value=%#x", j, rr.has(), got, gok, ok, want)
			return
		}
	}
	nreg := 0
	for j := range s.resMaps {
		if s.resMaps[j].add != nil {
			nreg++
		}
	}
	nreg += len(s.resPads)
	if got := len(ecs.ResourceIDs(s.W)); got != nreg {
		s.violate("C18", "reg.stable", "resource_count", false, "ResourceIDs lists %d resource types, %d were registered", got, nreg)
	}
	s.tracef("%d Resource %s %d", s.OpIdx, op.M, i)
}

// ---------------------------------------------------------------------------
// GC fault and memory oracles (C11)

func (s *Sim) opGC(op *Op) {
	n := abs(op.N)%3 + 1
	ForceGC(n)
	s.C.Faults["gc_between_ops"] += n
	s.checkMemory()
	s.tracef("%d GC", s.OpIdx)
}

// checkMemory: pointees of alive components are intact, pointees referenced only
// by removed components are collectable.
func (s *Sim) checkMemory() {
	if Tracker == nil {
		return
	}
	ForceGC(2)
	refd := map[uint64]bool{}
	for _, l := range s.M.Live {
		e := s.M.Ents[l-1]
		for t, v := range e.Comps {
			if U[t].HasOb && v != 0 {
				refd[v] = true
			}
		}
	}
	// in-flight component values held by the harness (none between ops)
	s.C.Checks["mem.released"]++
	var vals []uint64
	for v := range Tracker.Objs {
		vals = append(vals, v)
	}
	sort.Slice(vals, func(i, j int) bool { return vals[i] < vals[j] })
	for _, v := range vals {
		ptrs := Tracker.Objs[v]
		if refd[v] {
			continue
		}
		anyAlive := false
		for _, p := range ptrs {
			if p.Value() != nil {
				anyAlive = true
			}
		}
		if anyAlive {
			ForceGC(1)
			for _, p := range ptrs {
				if p.Value() != nil {
					s.violate("C11", "mem.released", "retained", false, "object for value %#x is referenced only by removed components but was not collected after 3 GCs", v)
					return
				}
			}
		}
		delete(Tracker.Objs, v)
	}
	// mem.intact is covered by the store comparison that follows every op: the
	// codecs verify magic/self/inverse fields of every pointee.
}

// ---------------------------------------------------------------------------
// Dump / load (C17)

// sameDump compares two entity dumps: the same pool, the same set of alive IDs (their order
// is the iteration order of the dumping world, which may differ), the same free list.
func sameDump(a, b *ecs.EntityDump) string {
	if len(a.Entities) != len(b.Entities) {
		return fmt.Sprintf("%d pool entries vs %d", len(a.Entities), len(b.Entities))
	}
	for i := range a.Entities {
		if a.Entities[i] != b.Entities[i] {
			return fmt.Sprintf("pool entry %d is %v vs %v", i, a.Entities[i], b.Entities[i])
		}
	}
	if a.Next != b.Next || a.Available != b.Available {
		return fmt.Sprintf("next/available %d/%d vs %d/%d", a.Next, a.Available, b.Next, b.Available)
	}
	if len(a.Alive) != len(b.Alive) {
		return fmt.Sprintf("%d alive IDs vs %d", len(a.Alive), len(b.Alive))
	}
	x := append([]uint32{}, a.Alive...)
	y := append([]uint32{}, b.Alive...)
	sort.Slice(x, func(i, j int) bool { return x[i] < x[j] })
	sort.Slice(y, func(i, j int) bool { return y[i] < y[j] })
	for i := range x {
		if x[i] != y[i] {
			return fmt.Sprintf("alive IDs differ: %d vs %d", x[i], y[i])
		}
	}
	return ""
}

func (s *Sim) opDumpLoad(op *Op) {
	if s.locked() {
		s.skip(op)
		return
	}
	s.C.Checks["dump.roundtrip"]++
	{
		// dumping a world without any entity (a fresh one, or one that was reset) is an ordinary
		// read: the world is unlocked afterwards
		we := ecs.NewWorld(2)
		if op.N%2 == 1 {
			we.NewEntity()
			we.NewEntity()
			we.Reset()
		}
		if p, val := s.call(func() { we.Unsafe().DumpEntities() }); p {
			s.violate("C17", "dump.load", "empty_world", false, "DumpEntities of an empty world panicked: %v", val)
			return
		}
		if we.IsLocked() {
			s.violate("C07", "lock.release", "dump_empty_world", false, "the world is locked after DumpEntities of a world without entities, although no query is open")
			return
		}
	}
	dump := s.W.Unsafe().DumpEntities()
	// through JSON, as a serializer would do
	if op.N%2 == 0 {
		b, err := json.Marshal(&dump)
		if op.N%4 == 0 {
			// a serializer may as well write indented JSON
			b, err = json.MarshalIndent(&dump, "", "\t")
		}
		if err != nil {
			s.violate("C17", "dump.codec", "marshal", false, "EntityDump JSON marshal failed: %v", err)
			return
		}
		var d2 ecs.EntityDump
		if err := json.Unmarshal(b, &d2); err != nil {
			s.violate("C17", "dump.codec", "unmarshal", false, "EntityDump JSON unmarshal failed: %v", err)
			return
		}
		dump = d2
	}
	if op.N%5 == 1 {
		// the pool entries through the binary codec, one by one
		for i := range dump.Entities {
			b, err := dump.Entities[i].MarshalBinary()
			var e ecs.Entity
			if err != nil || e.UnmarshalBinary(b) != nil || e != dump.Entities[i] {
				s.violate("C17", "codec.roundtrip", "dump_entry_binary", false, "pool entry %d of a dump, %v, does not survive the binary codec: %v (err %v)", i, dump.Entities[i], e, err)
				return
			}
			dump.Entities[i] = e
		}
	}
	capN, _ := s.initCaps()
	var w2 *ecs.World
	if op.N%3 == 0 {
		w2 = ecs.NewWorld(capN)
		// reset world: populate and reset first
		m := ecs.NewMap[T02](w2)
		var hs []ecs.Entity
		for i := 0; i < abs(op.N)%7+1; i++ {
			hs = append(hs, m.NewEntity(&T02{V: 1}))
		}
		// the world that is reset may have any history: all of its entities or some of them
		// removed (a free list, generations above zero), or all alive
		switch abs(op.N/3) % 3 {
		case 1:
			for _, h := range hs {
				w2.RemoveEntity(h)
			}
			s.C.Faults["load_into_reset_world_all_dead_before"]++
		case 2:
			for i := len(hs) - 1; i >= 0; i -= 2 {
				w2.RemoveEntity(hs[i])
			}
		}
		w2.Reset()
		s.C.Faults["load_into_reset_world"]++
	} else {
		w2 = ecs.NewWorld(abs(op.N)%5 + 1)
	}
	p, val := s.call(func() { w2.Unsafe().LoadEntities(&dump) })
	if p {
		s.violate("C17", "dump.load", "panic", false, "LoadEntities into an empty world panicked: %v", val)
		return
	}
	handles := make([]ecs.Entity, 0, len(s.M.ByHandle))
	for h := range s.M.ByHandle {
		handles = append(handles, h)
	}
	sort.Slice(handles, func(i, j int) bool {
		if handles[i].ID() != handles[j].ID() {
			return handles[i].ID() < handles[j].ID()
		}
		return handles[i].Gen() < handles[j].Gen()
	})
	for _, h := range handles {
		a, b := s.W.Alive(h), w2.Alive(h)
		if a != b {
			// (C02 counts dump/load among the histories: a removed handle is never alive again,
			// a handle that was not removed stays alive)
			s.violate("C02", "pool.alive", "after_load", false, "handle %v: alive=%v when the world was dumped, %v in the world that loaded the dump", h, a, b)
		}
		if a != b {
			s.violate("C17", "dump.alive", "mismatch", false, "handle %v: alive=%v in the source world, %v after loading the dump", h, a, b)
			return
		}
	}
	// A world that loaded a dump dumps the same state again (dump -> load -> dump chains).
	var d2 ecs.EntityDump
	if p, val := s.call(func() { d2 = w2.Unsafe().DumpEntities() }); p {
		s.violate("C17", "dump.chain", "panic", false, "DumpEntities of a world that loaded a dump panicked: %v", val)
		return
	}
	s.C.Checks["dump.chain"]++
	if msg := sameDump(&dump, &d2); msg != "" {
		s.violate("C17", "dump.chain", "differs", false, "the dump of a world that loaded a dump differs from that dump: %s", msg)
		return
	}
	if s.Flags.Trace {
		return
	}
	// The dump is a snapshot: activity in a world that loaded it must not change it.
	// Disturb w2 (removals bump generations and relink the free list), then load the
	// very same dump object into a third world and compare again.
	disturbed := 0
	for _, h := range handles {
		if disturbed >= 3 {
			break
		}
		if w2.Alive(h) {
			w2.RemoveEntity(h)
			disturbed++
		}
	}
	for i := 0; i < 2; i++ {
		w2.NewEntity()
	}
	w3 := ecs.NewWorld(abs(op.N)%3 + 1)
	p, val = s.call(func() { w3.Unsafe().LoadEntities(&dump) })
	if p {
		s.violate("C17", "dump.load", "panic_second", false, "loading the same dump a second time panicked: %v", val)
		return
	}
	s.C.Checks["dump.reload"]++
	for _, h := range handles {
		a, b := s.W.Alive(h), w3.Alive(h)
		if a != b {
			s.violate("C02", "pool.alive", "after_second_load", false, "handle %v: alive=%v when the world was dumped, %v in a world that loaded the same dump later", h, a, b)
			s.violate("C17", "dump.alive", "second_load", false, "handle %v: alive=%v in the source world, %v after loading the same dump again (another world that had loaded it removed entities in between)", h, a, b)
			return
		}
	}
	w2 = w3
	// dump.next: consecutive creations return the same handles in both worlds.
	// The creations in the source world are ordinary NewEntity ops of the history.
	k := abs(op.N)%50 + 1
	var issuedBefore map[ecs.Entity]bool
	for i := 0; i < k; i++ {
		n := len(s.M.Ents)
		s.opNewEntity(&Op{K: KNewEntity, P: PWorld})
		if s.fatal || len(s.M.Ents) != n+1 {
			return
		}
		src := s.M.Ents[n].H
		h := w2.NewEntity()
		if issuedBefore == nil {
			issuedBefore = map[ecs.Entity]bool{}
			for _, x := range handles {
				issuedBefore[x] = true
			}
		}
		if issuedBefore[h] {
			// the world that loaded the dump continues the life of the dumped one (C02: dump/load is part of the histories)
			s.violate("C02", "pool.unique", "after_load", false, "creation %d in the world that loaded the dump returned %v, a handle the dumped world had issued before the dump", i, h)
		}
		if h != src {
			s.violate("C17", "dump.next", "handle", false, "creation %d after loading returned %v, the source world returned %v", i, h, src)
			return
		}
	}
	// dump.reset (wave 13, C17-l): a world that loaded a dump and is then Reset is an empty, reusable world again:
	// its creations are the creations of a fresh world, and the two reserved handles stay dead.
	if op.X%2 == 0 {
		w2.Reset()
		fresh := ecs.NewWorld(abs(op.N)%3 + 1)
		for i := 0; i < 3; i++ {
			h, want := w2.NewEntity(), fresh.NewEntity()
			if h != want {
				s.violate("C17", "dump.reset", "handle", false, "creation %d after Reset of the world that loaded a dump returned %v, a fresh world returns %v", i, h, want)
				return
			}
		}
		if n := w2.Stats().Entities.Used; n != 3 {
			s.violate("C17", "dump.reset", "used", false, "the world that loaded a dump, was Reset and created 3 entities reports %d used entities", n)
			return
		}
	}
	s.tracef("%d DumpLoad", s.OpIdx)
}

// opCodec: entity JSON/binary codecs. Plain seeded input generation, not simulation (see DESIGN.md C17).
func (s *Sim) opCodec(op *Op) {
	s.C.Checks["codec"]++
	var e ecs.Entity
	if op.E >= 0 && len(s.M.Ents) > 0 {
		e = s.M.Ents[op.E%len(s.M.Ents)].H
	} else {
		// arbitrary (id, gen) pair through the binary decoder
		buf := make([]byte, 8)
		x := op.X
		if x%4 == 0 {
			// the reserved IDs 0 and 1 (zero entity, wildcard) and small IDs with arbitrary generations:
			// such pairs are part of every entity dump (reserved entries, free-list links)
			id, gen := uint32((x>>8)%4), uint32(x>>32)|1
			for i := 0; i < 4; i++ {
				buf[3-i] = byte(id >> (8 * i))
				buf[7-i] = byte(gen >> (8 * i))
			}
		} else {
			for i := range buf {
				buf[i] = byte(x >> (8 * i))
			}
		}
		if err := e.UnmarshalBinary(buf); err != nil {
			s.violate("C17", "codec.roundtrip", "binary8", false, "UnmarshalBinary of 8 bytes failed: %v", err)
			return
		}
	}
	b, err := e.MarshalBinary()
	var e2 ecs.Entity
	if err != nil || e2.UnmarshalBinary(b) != nil || e2 != e {
		s.violate("C17", "codec.roundtrip", "binary", false, "binary round trip of %v gave %v (err %v)", e, e2, err)
	}
	ab, _ := e.AppendBinary([]byte{1, 2, 3})
	var e4 ecs.Entity
	if len(ab) != 11 || e4.UnmarshalBinary(ab[3:]) != nil || e4 != e {
		s.violate("C17", "codec.roundtrip", "append", false, "AppendBinary round trip of %v gave %v", e, e4)
	}
	// the marshalers called directly, results of several entities held at the same time
	other := ecs.Entity{}
	if len(s.M.Ents) > 1 {
		other = s.M.Ents[(op.E+1)%len(s.M.Ents)].H
	}
	j1, err1 := e.MarshalJSON()
	j2, err2 := other.MarshalJSON()
	b1, _ := e.MarshalBinary()
	b2, _ := other.MarshalBinary()
	var d1, d2, d3, d4 ecs.Entity
	if err1 != nil || err2 != nil || d1.UnmarshalJSON(j1) != nil || d2.UnmarshalJSON(j2) != nil || d1 != e || d2 != other {
		s.violate("C17", "codec.roundtrip", "json_held", false, "MarshalJSON results of %v and %v held at the same time decode to %v and %v (%q, %q)", e, other, d1, d2, j1, j2)
	}
	if d3.UnmarshalBinary(b1) != nil || d4.UnmarshalBinary(b2) != nil || d3 != e || d4 != other {
		s.violate("C17", "codec.roundtrip", "binary_held", false, "MarshalBinary results of %v and %v held at the same time decode to %v and %v", e, other, d3, d4)
	}
	j, err := json.Marshal(e)
	var e3 ecs.Entity
	if err != nil || json.Unmarshal(j, &e3) != nil || e3 != e {
		s.violate("C17", "codec.roundtrip", "json", false, "JSON round trip of %v gave %v (err %v)", e, e3, err)
	}
	// an entity inside a document, indented, and with the white space JSON allows
	type doc struct {
		A ecs.Entity
		L []ecs.Entity
		M map[string]ecs.Entity
	}
	dc := doc{A: e, L: []ecs.Entity{other, e}, M: map[string]ecs.Entity{"x": e, "y": other}}
	var dc2 doc
	if jb, err := json.MarshalIndent(&dc, " ", "  "); err != nil || json.Unmarshal(jb, &dc2) != nil || dc2.A != e || len(dc2.L) != 2 || dc2.L[0] != other || dc2.L[1] != e || dc2.M["x"] != e || dc2.M["y"] != other {
		s.violate("C17", "codec.roundtrip", "json_indent", false, "indented JSON round trip of a document with entities %v, %v failed (err %v): %+v", e, other, err, dc2)
	}
	for _, form := range []string{"[%d, %d]", " [ %d ,%d ] ", "[\n\t%d,\n\t%d\n]", "[%d,\r\n %d]"} {
		var e6 ecs.Entity
		txt := fmt.Sprintf(form, e.ID(), e.Gen())
		if err := json.Unmarshal([]byte(txt), &e6); err != nil || e6 != e {
			s.violate("C17", "codec.roundtrip", "json_whitespace", false, "valid JSON %q for entity %v decodes to %v (err %v)", txt, e, e6, err)
			break
		}
	}
	if len(op.B) != 8 {
		var e5 ecs.Entity
		p, _ := s.call(func() { err = e5.UnmarshalBinary(op.B) })
		if p || err == nil {
			s.violate("C17", "codec.reject", "length", false, "UnmarshalBinary of %d bytes: panic=%v err=%v, expected an error", len(op.B), p, err)
		}
	}
}
