package sim

// Op and fault language. Entity / filter / query / observer arguments are
// indices taken modulo the current list lengths at execution time, and every
// op is normalised against the model before it is executed (an op that is not
// applicable in the current state is skipped), so any sub-list of a history is
// still a well-defined history. That is what makes minimisation work.

// Op kinds.
const (
	KNewEntity      = "NewEntity"
	KNewBatch       = "NewBatch"
	KNewEntities    = "NewEntities"
	KCopyEntity     = "CopyEntity"
	KAdd            = "Add"
	KRemove         = "Remove"
	KExchange       = "Exchange"
	KSet            = "Set"
	KSetRel         = "SetRel"
	KAddBatch       = "AddBatch"
	KRemoveBatch    = "RemoveBatch"
	KExchangeBatch  = "ExchangeBatch"
	KSetRelBatch    = "SetRelBatch"
	KRemoveEntities = "RemoveEntities"
	KRemoveEntity   = "RemoveEntity"
	KReset          = "Reset"
	KShrink         = "Shrink"
	KStats          = "Stats"
	KDumpLoad       = "DumpLoad"
	KNewFilter      = "NewFilter"
	KRegister       = "Register"
	KUnregister     = "Unregister"
	KOpenQuery      = "OpenQuery"
	KNext           = "Next"
	KCloseQuery     = "CloseQuery"
	KSweep          = "Sweep"
	KNewObserver    = "NewObserver"
	KRegObs         = "RegObs"
	KUnregObs       = "UnregObs"
	KEmit           = "Emit"
	KResource       = "Resource"
	KGC             = "GC"
	KMisuse         = "Misuse"
	KMatrix         = "Matrix"
	KBigBatch       = "BigBatch"
	KCodec          = "Codec"
	KQMisuse        = "QMisuse"
	KRegistry       = "Registry"
	KBatchUse       = "BatchUse"
)

// API paths (Op.P).
const (
	PUnsafe = 0 // ID-based API
	PMap    = 1 // Map[T] / MapN adapter Op.Ad
	PEx     = 2 // ExchangeN adapter Op.Ad
	PWorld  = 3 // World method (NewEntity without components)
)

// Value forms (Op.Fn).
const (
	FnValue = 0 // value arguments
	FnFunc  = 1 // callback that writes the values
	FnNil   = 2 // nil callback: components stay uninitialised (must read as zero)
)

// Relation styles (Op.RS).
const (
	RSIdx  = 0 // ecs.RelIdx
	RSType = 1 // ecs.Rel[T]
	RSID   = 2 // ecs.RelID
)

// Op is one operation or fault of a history.
type Op struct {
	K    string      `json:"k"`
	P    int         `json:"p,omitempty"`
	Ad   int         `json:"ad,omitempty"`
	E    int         `json:"e,omitempty"`
	Cs   []int       `json:"cs,omitempty"` // component types (unsafe path) / set subset
	Rm   []int       `json:"rm,omitempty"` // components to remove
	Vs   []uint64    `json:"vs,omitempty"` // values, one per component (extended cyclically)
	Ts   []int       `json:"ts,omitempty"` // target entity indices, one per relation component (-1 = zero entity)
	N    int         `json:"n,omitempty"`  // count / steps
	F    int         `json:"f,omitempty"`  // filter index
	W    int         `json:"w,omitempty"`  // which of the filter pair: 0 = registerable twin A, 1 = never-registered twin B
	QR   []RelSpec   `json:"qr,omitempty"` // per-query / per-batch relation targets
	Q    int         `json:"q,omitempty"`  // open query index
	O    int         `json:"o,omitempty"`  // observer index
	Fn   int         `json:"fn,omitempty"` // value form
	RS   int         `json:"rs,omitempty"` // relation style
	Spec *FilterSpec `json:"spec,omitempty"`
	Obs  *ObsSpec    `json:"obs,omitempty"`
	Scr  []int       `json:"scr,omitempty"` // callback script
	Sk   []int       `json:"sk,omitempty"`  // clock skews in seconds (Shrink)
	M    string      `json:"m,omitempty"`   // misuse kind / sub-kind
	X    uint64      `json:"x,omitempty"`   // extra scalar
	B    []byte      `json:"b,omitempty"`   // bytes (codec)
}

// Event kinds of the model (index into evNames).
const (
	EvCreate = iota
	EvRemove
	EvAdd
	EvRemoveComps
	EvSet
	EvAddRel
	EvRemoveRel
	EvCustom0 // first custom event type; custom type k has kind EvCustom0+k
)

// EvNames names the built-in events.
var EvNames = []string{"OnCreateEntity", "OnRemoveEntity", "OnAddComponents", "OnRemoveComponents", "OnSetComponents", "OnAddRelations", "OnRemoveRelations"}

// EvName names an event kind.
func EvName(ev int) string {
	if ev < len(EvNames) {
		return EvNames[ev]
	}
	return "Custom"
}

// NumCustom is the number of custom event types used by the harness.
const NumCustom = 3

// ObsSpec describes an observer.
type ObsSpec struct {
	Ev      int   `json:"ev"`            // event kind
	Ad      int   `json:"ad"`            // ObsTuples index, -1 = non-generic Observer
	For     []int `json:"for,omitempty"` // For components in addition to the generic parameters
	With    []int `json:"with,omitempty"`
	Without []int `json:"wo,omitempty"`
	Excl    bool  `json:"excl,omitempty"`
}

// Callback script actions.
const (
	CbNothing = iota
	CbRead
	CbQuery
	CbSet
	CbWritePtr
	CbGC
	CbStructural
	CbUnregSelf
	CbUnregOther
	CbRegNew
	CbEmit
	CbFilterReg
	CbStats
	CbOtherWorld
	NumCbActions
)

// CbNames names callback actions.
var CbNames = []string{"nothing", "read", "query", "set", "writeptr", "gc", "structural", "unreg_self", "unreg_other", "reg_new", "emit", "filter_reg", "stats", "other_world"}

// Config is the per-run configuration (drawn from the seed, stored in replays).
type Config struct {
	Cap     int    `json:"cap"`             // initial capacity (0 = ark default)
	RelCap  int    `json:"relcap"`          // relation capacity (0 = same as Cap)
	Offset  int    `json:"offset"`          // padding types registered before the universe
	Perm    []int  `json:"perm,omitempty"`  // registration order of universe types
	Types   []int  `json:"types,omitempty"` // universe subset used by the generator
	WeakOn  bool   `json:"weak,omitempty"`  // track weak pointers (C11)
	Split   int    `json:"split,omitempty"` // number of universe types registered before the gap
	Gap     int    `json:"gap,omitempty"`   // padding types registered between the universe types (IDs in different mask words, equal bit positions)
	Move    int    `json:"move,omitempty"`  // fault: every Move-th new table / archetype moves the storage's list to a new array (0 = never)
	Profile string `json:"profile,omitempty"`
}

// Flags alter how the executor runs a history (twin transformations).
type Flags struct {
	ForceUnsafe  bool // C14: typed ops through the ID-based API
	AsSingles    bool // C06: batch ops as single ops over the model-selected set
	VirtualCache bool // C05: never really register filters
	DropShrink   bool // C15
	DropStats    bool // C19: Stats only at the end
	Trace        bool // engine C: record a result trace
	NoOracles    bool // twin B / trace runs: only observations, no per-op oracles
	Observe      bool // record canonical observation hashes per op
}

// Violation is an oracle failure.
type Violation struct {
	Prop   string `json:"prop"`
	Oracle string `json:"oracle"`
	Sig    string `json:"sig"`
	Msg    string `json:"msg"`
	OpIdx  int    `json:"op_idx"`
	Fatal  bool   `json:"fatal"`
}

// Replay is the replay file format.
type Replay struct {
	Property string     `json:"property"`
	Engine   string     `json:"engine"`
	Build    string     `json:"build,omitempty"`
	Seed     uint64     `json:"seed"`
	Run      int        `json:"run"`
	Worker   int        `json:"worker"`
	Tier     string     `json:"tier"`
	Mode     string     `json:"mode,omitempty"` // twin / trace mode
	Cfg      Config     `json:"cfg"`
	Ops      []Op       `json:"ops"`
	Viol     *Violation `json:"violation,omitempty"`
	Par      *ParReplay `json:"par,omitempty"`
}

// ParReplay is the engine-B part of a replay: segments of engine-A ops, each
// followed by a round of simulated goroutines.
type ParReplay struct {
	Segments []ParSegment `json:"segments"`
}

// ParSegment is a list of world-building ops followed by one round.
type ParSegment struct {
	Ops   []Op      `json:"ops"`
	Round *ParRound `json:"round,omitempty"`
}

// ParRound describes one round of simulated goroutines.
type ParRound struct {
	Filters  []ParFilter `json:"filters"`
	Scripts  [][]ParStep `json:"scripts"`
	Seed     uint64      `json:"seed"`
	Stay     int         `json:"stay"`
	Schedule []int16     `json:"schedule,omitempty"`
}

// ParStep is one step of a goroutine script.
type ParStep struct {
	K   string `json:"k"`             // query, count, entityat, next, close, gc
	F   int    `json:"f,omitempty"`   // filter index (query)
	Tgt int    `json:"tgt,omitempty"` // relation partition: target entity index, -2 = none
	N   int    `json:"n,omitempty"`   // steps / index
	Wr  bool   `json:"wr,omitempty"`  // write through Get pointers (own partition only)
}

// ParFilter describes a filter used by engine B.
type ParFilter struct {
	Spec   FilterSpec `json:"spec"`
	Cached bool       `json:"cached,omitempty"`
	Owner  int        `json:"owner"`           // -1 = shared by all goroutines, else private to that goroutine
	Batch  bool       `json:"batch,omitempty"` // the filter was used once for Batch(rel) before (as a batch operation would)
}
