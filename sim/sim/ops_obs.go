package sim

import (
	"unsafe"

	"github.com/mlange-42/ark/ecs"
)

// Observers and custom events.

// MaxObservers bounds the number of observers per run.
const MaxObservers = 14

func (s *Sim) eventType(ev int) ecs.EventType {
	switch ev {
	case EvCreate:
		return ecs.OnCreateEntity
	case EvRemove:
		return ecs.OnRemoveEntity
	case EvAdd:
		return ecs.OnAddComponents
	case EvRemoveComps:
		return ecs.OnRemoveComponents
	case EvSet:
		return ecs.OnSetComponents
	case EvAddRel:
		return ecs.OnAddRelations
	case EvRemoveRel:
		return ecs.OnRemoveRelations
	}
	return s.evTypes[(ev-EvCustom0)%NumCustom]
}

func normObs(spec ObsSpec) (ObsSpec, []int, bool) {
	if spec.Ev < 0 {
		spec.Ev = -spec.Ev
	}
	spec.Ev = spec.Ev % (EvCustom0 + NumCustom)
	var tuple []int
	if spec.Ad >= 0 {
		spec.Ad = spec.Ad % len(ObsTuples)
		tuple = ObsTuples[spec.Ad]
	} else {
		spec.Ad = -1
	}
	relEvent := spec.Ev == EvAddRel || spec.Ev == EvRemoveRel
	if relEvent {
		// relation observers may only observe relation components
		for _, t := range tuple {
			if !U[t].IsRel {
				return spec, nil, false
			}
		}
	}
	var fr []int
	for _, t := range uniqKeep(spec.For) {
		if contains(tuple, t) {
			continue
		}
		if relEvent && !U[t].IsRel {
			continue
		}
		fr = append(fr, t)
	}
	spec.For = fr
	forAll := append(append([]int{}, tuple...), fr...)
	spec.With = uniqKeep(spec.With)
	var wo []int
	for _, t := range uniqKeep(spec.Without) {
		if !contains(spec.With, t) {
			wo = append(wo, t)
		}
	}
	spec.Without = wo
	if spec.Excl {
		spec.Without = nil
	}
	return spec, forAll, true
}

func (s *Sim) opNewObserver(op *Op) {
	if op.Obs == nil || (len(s.observers) >= MaxObservers && !s.rebuilding) {
		s.skip(op)
		return
	}
	spec, forAll, ok := normObs(*op.Obs)
	if !ok {
		s.skip(op)
		return
	}
	o := NewObserverer(s.eventType(spec.Ev), spec.Ad)
	if len(spec.For) > 0 {
		o.For(spec.For)
	}
	if len(spec.With) > 0 {
		o.With(spec.With)
	}
	if spec.Excl {
		o.Exclusive()
	} else if len(spec.Without) > 0 {
		o.Without(spec.Without)
	}
	oi := len(s.observers)
	inst := &ObsInst{Spec: spec, O: o, ForAll: forAll, Script: op.Scr, Epoch: -1}
	o.Do(func(e ecs.Entity, ptrs []unsafe.Pointer) { s.onEvent(oi, e, ptrs) })
	s.observers = append(s.observers, inst)
	s.tracef("%d NewObserver %d ev=%d ad=%d for=%v with=%v wo=%v excl=%v", s.OpIdx, oi, spec.Ev, spec.Ad, forAll, spec.With, spec.Without, spec.Excl)
	if op.N == 0 {
		if oi%4 == 1 && !s.rebuilding {
			// the first world this observer object is registered in is another one
			w2 := s.scratchWorld()
			if p, val := s.call(func() {
				o.Register(w2)
				o.Unregister(w2)
			}); p {
				s.violate("C08", "obs.register", "other_world_first", true, "registering and unregistering a new observer in another world panicked: %v", val)
				return
			}
			s.C.Faults["obs_served_other_world_before"]++
		}
		s.regObs(inst, true)
	}
}

func (s *Sim) regObs(o *ObsInst, reg bool) {
	p, val := s.call(func() {
		if reg {
			o.O.Register(s.W)
		} else {
			o.O.Unregister(s.W)
		}
	})
	if p {
		prop := "C08"
		if reg && o.Epoch >= 0 && o.Epoch != s.M.Epoch {
			prop = "C16"
		}
		s.violate(prop, "obs.register", map[bool]string{true: "register", false: "unregister"}[reg], true, "observer register=%v panicked: %v", reg, val)
		return
	}
	o.Registered = reg
	if reg {
		o.Epoch = s.M.Epoch
		s.C.Faults["obs_register"]++
	} else {
		s.C.Faults["obs_unregister"]++
	}
}

func (s *Sim) opRegObs(op *Op, reg bool) {
	if len(s.observers) == 0 {
		s.skip(op)
		return
	}
	o := s.observers[abs(op.O)%len(s.observers)]
	if o.Registered == reg || o.Invalid {
		s.skip(op)
		return
	}
	if reg && abs(op.O)%3 == 0 {
		// the observer object served another world before (Register and Unregister take the world
		// as argument): a world that registered the component types in the opposite order
		w2 := s.scratchWorld()
		if p, val := s.call(func() {
			o.O.Register(w2)
			o.O.Unregister(w2)
		}); p {
			s.violate("C08", "obs.register", "other_world", true, "registering and unregistering the observer in another world panicked: %v", val)
			return
		}
		s.C.Faults["obs_served_other_world_before"]++
	}
	s.regObs(o, reg)
	s.tracef("%d RegObs %d %v", s.OpIdx, abs(op.O)%len(s.observers), reg)
}

func (s *Sim) opEmit(op *Op) {
	ev := EvCustom0 + abs(int(op.X))%NumCustom
	var e *Ent
	if op.E >= 0 {
		e = s.M.PickLive(op.E)
	}
	var cs []int
	var h ecs.Entity
	key := 0
	var basis []int
	if e != nil {
		for _, c := range uniqKeep(op.Cs) {
			if e.Has(c) {
				cs = append(cs, c)
			}
		}
		h = e.H
		key = e.Label
		basis = e.Types()
	}
	t := s.newTxn(KEmit)
	t.rows = []evRow{{Ev: ev, Key: key, Affected: cs, Basis: basis}}
	evt := s.W.Event(s.eventType(ev))
	if len(cs) > 0 {
		evt = evt.For(comps(cs)...)
	}
	s.count("Event.Emit")
	s.cur = t
	p, val := s.call(func() { evt.Emit(h) })
	s.cur = nil
	if p {
		s.violate("C07", "lock.allows", "Emit", true, "emitting a custom event panicked (locked=%v): %v", s.locked(), val)
		return
	}
	s.checkEvents(t)
	s.tracef("%d Emit ev=%d e=%d cs=%v", s.OpIdx, ev, key, cs)
}

// scratchWorld returns a second world of the process in which the universe types are
// registered in the opposite order (other component IDs than in the simulated world).
func (s *Sim) scratchWorld() *ecs.World {
	if s.scratch == nil {
		s.scratch = ecs.NewWorld(4)
		for t := NumTypes - 1; t >= 0; t-- {
			U[t].ID(s.scratch)
		}
	}
	return s.scratch
}
