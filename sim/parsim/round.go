package parsim

import (
	"fmt"
	"os"
	"runtime"
	"sort"
	"strings"
	"sync"

	"arkverif/sim"

	"github.com/mlange-42/ark/ecs"
)

// Yield is the harness-level scheduling point between API calls of a script.
func Yield() { yield() }

func parkTask(id int) { park(id) }
func finishTask()     { finish() }

// queryPlan is the precomputed plan of one query of a script.
type queryPlan struct {
	pf    *sim.ParF
	rels  []ecs.Relation
	exp   map[ecs.Entity]bool
	label int
	dead  []ecs.Relation // the same query with a removed entity as target (nil: not applicable)
}

// queryResult is what a task observed for one query.
type queryResult struct {
	visited   []ecs.Entity
	count     int
	entityAt  []ecs.Entity
	exhausted bool
	closed    bool
	counted   bool // holds a lock bit as far as the harness knows (see attempts)
	badRead   string
	writes    []write
}

type write struct {
	h ecs.Entity
	t int
	v uint64
}

type task struct {
	extra     []sim.Querier // further open queries (step "burst")
	rejected  int           // attempts rejected because 64 queries were open
	deadTried int           // rejected queries with a removed entity as target (step "deadquery")
	id        int
	script    []sim.ParStep
	plans     []queryPlan // one per "query" step, in order
	results   []queryResult
	panicV    string
}

// RoundStats are reach measures of a round.
type RoundStats struct {
	Steps, Switches, InLock, TryFails, Stalls int
	SharedSwitch                              int // preemptions inside the lock-free hint refresh of a shared filter
	Tasks                                     int
	Rejected                                  int // queries rejected because 64 were open
	DeadTarget                                int // queries tried with a removed entity as relation target
	Queries                                   int
	SharedFirstUse                            int
}

// Session is one engine-B session: a world built by engine-A ops with rounds of goroutines in between.
type Session struct {
	S       *sim.Sim
	Filters []*sim.ParF
	PFs     []sim.ParFilter
	used    []bool // filter was queried before (for first-use accounting)
	Viol    []sim.Violation
	Stats   RoundStats
	Sched   map[uint64]bool
}

func (se *Session) violate(oracle, sig, format string, args ...any) {
	msg := fmt.Sprintf(format, args...)
	if len(msg) > 700 {
		msg = msg[:700] + "..."
	}
	se.Viol = append(se.Viol, sim.Violation{Prop: "C13", Oracle: oracle, Sig: "C13/" + oracle + "/" + sig, Msg: msg})
}

// AddFilters instantiates the filters a round adds to the session.
func (se *Session) AddFilters(fs []sim.ParFilter) {
	for _, f := range fs {
		pf := se.S.NewParFilter(f.Spec, f.Cached)
		if f.Batch {
			se.S.UseForBatch(pf)
		}
		se.Filters = append(se.Filters, pf)
		se.PFs = append(se.PFs, f)
		se.used = append(se.used, false)
	}
}

// RunRound executes one round. It returns the schedule that was taken.
func (se *Session) RunRound(r *sim.ParRound, raceLog string) []int16 {
	s := se.S
	n := len(r.Scripts)
	if n == 0 || n > MaxTasks {
		return nil
	}
	tasks := make([]*task, n)
	// Goroutines that query the same filter for the same partition share one []Relation
	// argument (as a program that prepares its relation arguments once would do).
	type relKey struct{ f, tgt int }
	sharedRels := map[relKey][]ecs.Relation{}
	for i := range tasks {
		t := &task{id: i, script: r.Scripts[i]}
		for _, st := range t.script {
			if st.K != "query" {
				continue
			}
			if len(se.Filters) == 0 {
				continue
			}
			fidx := st.F % len(se.Filters)
			pf := se.Filters[fidx]
			rels, exp, label := s.ParQuery(pf, st.Tgt)
			if sr, ok := sharedRels[relKey{fidx, st.Tgt}]; ok {
				rels = sr
			} else {
				sharedRels[relKey{fidx, st.Tgt}] = rels
			}
			m := make(map[ecs.Entity]bool, len(exp))
			for _, h := range exp {
				m[h] = true
			}
			t.plans = append(t.plans, queryPlan{pf: pf, rels: rels, exp: m, label: label, dead: s.ParDeadQuery(pf, i+len(t.plans))})
			if !se.used[fidx] {
				se.used[fidx] = true
				if se.PFs[fidx].Owner < 0 {
					se.Stats.SharedFirstUse++
				}
			}
		}
		tasks[i] = t
	}
	before := fileSize(raceLog)
	resetAttempts()
	attemptsAdd(s.LockDepth()) // queries the engine-A part of the session holds open across the round
	setup(n, r.Seed, r.Stay, r.Schedule)
	prevYield := ecs.Verif.Yield
	defer func() { ecs.Verif.Yield = prevYield }()
	ecs.Verif.Yield = hook
	var wg sync.WaitGroup
	wg.Add(n)
	for _, t := range tasks {
		go func(t *task) {
			defer wg.Done()
			parkTask(t.id)
			t.run()
			finishTask()
		}(t)
	}
	start()
	sched, steps, switches, inLock, tryFails, stalls, deadlock := snapshot()
	if deadlock {
		se.violate("par.progress", "deadlock", "round with %d goroutines deadlocked: every unfinished goroutine waits for a mutex nobody releases (schedule length %d)", n, len(sched))
		return sched
	}
	wg.Wait()
	ecs.Verif.Yield = prevYield
	se.Stats.Steps += steps
	se.Stats.Switches += switches
	se.Stats.InLock += inLock
	se.Stats.SharedSwitch += sharedSwitches()
	se.Stats.TryFails += tryFails
	se.Stats.Stalls += stalls
	se.Stats.Tasks += n
	for _, t := range tasks {
		se.Stats.Rejected += t.rejected
		se.Stats.DeadTarget += t.deadTried
	}
	if se.Sched != nil {
		h := uint64(1469598103934665603)
		for _, c := range sched {
			h = (h ^ uint64(uint16(c))) * 1099511628211
		}
		se.Sched[h] = true
	}
	// evaluate
	for _, t := range tasks {
		if t.panicV != "" {
			se.violate("par.exact", "panic", "goroutine %d panicked: %s", t.id, t.panicV)
			continue
		}
		for qi, res := range t.results {
			se.Stats.Queries++
			pl := t.plans[qi]
			seen := map[ecs.Entity]int{}
			for _, h := range res.visited {
				seen[h]++
				if !pl.exp[h] {
					se.violate("par.exact", "foreign", "goroutine %d query %d visited %v which does not match its filter/partition (label %d)", t.id, qi, h, pl.label)
				} else if seen[h] > 1 {
					se.violate("par.exact", "duplicate", "goroutine %d query %d visited %v %d times", t.id, qi, h, seen[h])
				}
			}
			if res.exhausted && len(seen) != len(pl.exp) {
				se.violate("par.exact", "missing", "goroutine %d query %d finished after %d entities, expected %d", t.id, qi, len(seen), len(pl.exp))
			}
			if res.count >= 0 && res.count != len(pl.exp) {
				se.violate("par.exact", "count", "goroutine %d query %d Count() = %d, expected %d", t.id, qi, res.count, len(pl.exp))
			}
			for _, h := range res.entityAt {
				if !pl.exp[h] {
					se.violate("par.exact", "entity_at", "goroutine %d query %d EntityAt returned %v which does not match", t.id, qi, h)
				}
			}
			if res.badRead != "" {
				se.violate("par.exact", "data", "goroutine %d query %d: %s", t.id, qi, res.badRead)
			}
			for _, w := range res.writes {
				s.NoteWrite(w.h, w.t, w.v)
			}
		}
	}
	if bad := resetAttempts(); bad > 0 {
		se.violate("par.capacity", "refused_below_limit", "%d queries were refused with the run-out-of-bits panic although fewer than 64 other queries could have been open at that moment", bad)
	}
	if s.W.IsLocked() {
		se.violate("par.unlocked", "locked_after_join", "world still locked after all %d goroutines finished or closed their queries", n)
		// release the model's view as well: the session cannot continue
	}
	// race reports
	if raceLog != "" {
		if txt := readFrom(raceLog, before); txt != "" {
			se.raceReports(txt)
		}
	}
	return sched
}

func (t *task) run() {
	defer func() {
		if r := recover(); r != nil {
			t.panicV = fmt.Sprint(r)
			for _, qq := range t.extra {
				func() {
					defer func() { _ = recover() }()
					closeQuery(qq)
				}()
			}
			t.extra = nil
		}
	}()
	var q sim.Querier
	var pl *queryPlan
	var res *queryResult
	qi := -1
	wcount := 0
	for _, st := range t.script {
		Yield()
		switch st.K {
		case "query":
			if q != nil && !res.exhausted && !res.closed {
				q.Close()
				res.closed = true
			}
			if res != nil && res.counted {
				attemptsAdd(-1)
				res.counted = false
			}
			qi++
			if qi >= len(t.plans) {
				return
			}
			pl = &t.plans[qi]
			t.results = append(t.results, queryResult{count: -1})
			res = &t.results[qi]
			q = openOrRejected(pl)
			if q == nil {
				// all 64 lock bits are taken by other goroutines' queries at this moment
				t.rejected++
				res.closed = true
			} else {
				res.counted = true
			}
		case "count":
			if q != nil && !res.exhausted && !res.closed {
				res.count = q.Count()
			}
		case "entityat":
			if q != nil && !res.exhausted && !res.closed && len(pl.exp) > 0 {
				res.entityAt = append(res.entityAt, q.EntityAt(st.N%len(pl.exp)))
			}
		case "next":
			if q == nil || res.exhausted || res.closed {
				continue
			}
			n := st.N
			for i := 0; n < 0 || i < n; i++ {
				if i > 0 && i%4 == 0 {
					Yield()
				}
				if !q.Next() {
					res.exhausted = true
					if res.counted {
						attemptsAdd(-1)
						res.counted = false
					}
					break
				}
				h := q.Entity()
				res.visited = append(res.visited, h)
				ptrs := q.Get()
				ts := pl.pf.Spec.Ts
				for k, p := range ptrs {
					if sim.U[ts[k]].Get(p) == sim.BadValue {
						res.badRead = fmt.Sprintf("component T%02d of %v reads as corrupted", ts[k], h)
					}
				}
				if st.Wr {
					if wt, wi := pl.pf.WritableType(); wt >= 0 {
						wcount++
						v := uint64(0x5000000000) + uint64(t.id)<<16 + uint64(wcount)
						sim.U[wt].Put(ptrs[wi], v)
						res.writes = append(res.writes, write{h, wt, v})
					}
				}
			}
		case "close":
			if q != nil && !res.closed {
				q.Close() // closing a finished query again is harmless
				if !res.exhausted {
					res.closed = true
				}
				if res.counted {
					attemptsAdd(-1)
					res.counted = false
				}
			}
		case "gc":
			runtime.GC()
		case "deadquery":
			// A query whose relation argument names a removed entity is rejected; that must not
			// disturb the queries of the other goroutines nor leave a lock bit behind (checked
			// after the join: world unlocked, nobody refused below the limit).
			if pl == nil || pl.dead == nil {
				continue
			}
			t.deadTried++
			func() {
				defer func() { _ = recover() }()
				qq := pl.pf.F.Query(pl.dead)
				qq.Close()
			}()
		case "burst":
			if pl == nil {
				continue
			}
			for i := 0; i < st.N; i++ {
				Yield()
				if qq := openOrRejected(pl); qq != nil {
					t.extra = append(t.extra, qq)
				} else {
					t.rejected++
				}
			}
		}
	}
	if q != nil && !res.exhausted && !res.closed {
		Yield()
		q.Close()
		res.closed = true
	}
	if res != nil && res.counted {
		attemptsAdd(-1)
		res.counted = false
	}
	for _, qq := range t.extra {
		Yield()
		closeQuery(qq)
	}
	t.extra = nil
}

// attempts is an upper bound of the number of lock bits in use: it is raised before a query is
// requested and lowered after its Close returned (or after it was rejected or finished).
// Accessed by the simulated goroutines one at a time; kept out of the race detector's view
// like the scheduler state, so that it adds no happens-before edges.
var attempts, badRejections int

// attemptsLog records every value attempts took in this round, so that a task can ask for
// the maximum over the time its own request was in flight.
var attemptsLog []int

//go:norace
func attemptsAdd(d int) int {
	attempts += d
	attemptsLog = append(attemptsLog, attempts)
	return len(attemptsLog) - 1
}

//go:norace
func attemptsMaxSince(pos int) int {
	m := 0
	for _, v := range attemptsLog[pos:] {
		if v > m {
			m = v
		}
	}
	return m
}

//go:norace
func noteBadRejection() { badRejections++ }

//go:norace
func resetAttempts() (bad int) {
	bad = badRejections
	attempts, badRejections = 0, 0
	attemptsLog = attemptsLog[:0]
	return bad
}

// openOrRejected opens one more query; nil if it was rejected because all 64 lock bits are in use.
func openOrRejected(pl *queryPlan) (q sim.Querier) {
	pos := attemptsAdd(1)
	defer func() {
		if r := recover(); r != nil {
			if strings.Contains(fmt.Sprint(r), "run out of the maximum of") {
				if attemptsMaxSince(pos) <= 64 {
					// at no moment while this request was in flight can 64 other queries have been open
					noteBadRejection()
				}
				attemptsAdd(-1)
				q = nil
				return
			}
			panic(r)
		}
	}()
	return pl.pf.F.Query(pl.rels)
}

// closeQuery closes a query that was opened with openOrRejected.
func closeQuery(q sim.Querier) {
	q.Close()
	attemptsAdd(-1)
}

func fileSize(path string) int64 {
	if path == "" {
		return 0
	}
	fi, err := os.Stat(path)
	if err != nil {
		return 0
	}
	return fi.Size()
}

func readFrom(path string, off int64) string {
	b, err := os.ReadFile(path)
	if err != nil || int64(len(b)) <= off {
		return ""
	}
	return string(b[off:])
}

// raceReports parses race detector output: a report with an ark frame is a
// C13 violation; a report with harness frames only is a harness bug.
func (se *Session) raceReports(txt string) {
	blocks := strings.Split(txt, "WARNING: DATA RACE")
	for _, b := range blocks[1:] {
		var arkFns []string
		for _, line := range strings.Split(b, "\n") {
			line = strings.TrimSpace(line)
			if strings.HasPrefix(line, "github.com/mlange-42/ark/ecs.") {
				fn := strings.TrimPrefix(line, "github.com/mlange-42/ark/ecs.")
				if i := strings.Index(fn, "()"); i >= 0 {
					fn = fn[:i]
				}
				arkFns = append(arkFns, normFn(fn))
			}
			if strings.HasPrefix(line, "Goroutine ") {
				break
			}
		}
		if len(arkFns) == 0 {
			if len(se.Viol) > 0 {
				// Goroutines that were handed wrong entities (reported above as par.exact)
				// touch each other's partitions; that race is a consequence, not a harness bug.
				continue
			}
			panic("parsim: race report without ark frames (harness race):\n" + b)
		}
		uniq := map[string]bool{}
		var fns []string
		for _, f := range arkFns {
			if !uniq[f] {
				uniq[f] = true
				fns = append(fns, f)
			}
		}
		sort.Strings(fns)
		top := arkFns[0]
		se.violate("par.race", top, "data race reported by the Go race detector in %s (ark frames: %s):%s", top, strings.Join(fns, ", "), clip(b, 500))
	}
}

// normFn strips arities and type parameters: (*Filter2[...]).Query -> (*FilterN).Query
func normFn(fn string) string {
	if i := strings.Index(fn, "["); i >= 0 {
		if j := strings.LastIndex(fn, "]"); j > i {
			fn = fn[:i] + fn[j+1:]
		}
	}
	var b strings.Builder
	for i := 0; i < len(fn); i++ {
		c := fn[i]
		if c >= '0' && c <= '9' && i > 0 && isLetter(fn[i-1]) && (i+1 >= len(fn) || !isLetter(fn[i+1]) && !(fn[i+1] >= '0' && fn[i+1] <= '9')) {
			b.WriteByte('N')
			continue
		}
		b.WriteByte(c)
	}
	return b.String()
}

func isLetter(c byte) bool { return c >= 'a' && c <= 'z' || c >= 'A' && c <= 'Z' }

func clip(s string, n int) string {
	if len(s) > n {
		return s[:n] + "..."
	}
	return s
}
