package parsim

import (
	"arkverif/sim"
)

// Result of one engine-B session.
type Result struct {
	Cfg     sim.Config
	Par     sim.ParReplay
	Viol    []sim.Violation
	Stats   RoundStats
	Ops     int
	Rounds  int
	State   uint64
	Foreign map[string]int
	Dead    bool
}

// profile for building worlds: relation-heavy, no Reset (filters persist across rounds).
func parProfile(tier string) *sim.Profile {
	p := sim.ProfileFor("C13", tier, nil)
	p.W[sim.KReset] = 0
	p.W[sim.KMisuse] = 0.3
	p.W[sim.KDumpLoad] = 0
	p.W[sim.KSetRel] *= 3
	p.W[sim.KNewBatch] *= 3
	p.W[sim.KNewObserver] = 0.3
	p.MaxEntities = 150
	return p
}

func drawGoroutines(r *sim.Rng, tier string) int {
	// log-uniform: most rounds small, every batch has some large ones
	x := r.Float()
	max := 16.0
	if tier == "thorough" || r.Chance(0.08) {
		max = 64.0
	}
	n := 2.0
	for n < max && x > 0.45 {
		n *= 1.6
		x = r.Float()
	}
	if n > max {
		n = max
	}
	return int(n)
}

// drawRound draws filters and scripts for a round against the current world.
func drawRound(r *sim.Rng, se *Session, g *sim.Gen, tier string) *sim.ParRound {
	rd := &sim.ParRound{Seed: r.Uint64() | 1, Stay: []int{0, 64, 128, 200, 240}[r.Intn(5)]}
	nG := drawGoroutines(r, tier)
	// filters: reuse the session's, add some new ones
	nNew := r.Range(0, 2)
	if len(se.Filters) == 0 {
		nNew = r.Range(1, 3)
	}
	for i := 0; i < nNew; i++ {
		var spec *sim.FilterSpec
		for try := 0; try < 6; try++ {
			op := g.GenFilterOp()
			if op.Spec != nil && (op.Spec.Ad >= 0 || len(op.Spec.Ts) > 0) {
				spec = op.Spec
				break
			}
		}
		if spec == nil {
			continue
		}
		owner := -1
		if r.Chance(0.35) {
			owner = r.Intn(nG)
		}
		rd.Filters = append(rd.Filters, sim.ParFilter{Spec: *spec, Cached: r.Chance(0.4), Owner: owner, Batch: r.Chance(0.4)})
	}
	total := len(se.Filters) + len(rd.Filters)
	if total == 0 {
		return nil
	}
	owners := make([]int, total)
	for i := range owners {
		owners[i] = -1
		if i < len(se.PFs) {
			owners[i] = se.PFs[i].Owner
		} else {
			owners[i] = rd.Filters[i-len(se.PFs)].Owner
		}
	}
	writeRound := r.Chance(0.3)
	usedLabels := map[int]bool{}
	for gi := 0; gi < nG; gi++ {
		var sc []sim.ParStep
		nq := r.Range(1, 3)
		for k := 0; k < nq; k++ {
			// pick a filter this goroutine may use: shared or its own
			var cands []int
			for fi, o := range owners {
				if o < 0 || o == gi%max(1, nG) {
					cands = append(cands, fi)
				}
			}
			if len(cands) == 0 {
				cands = append(cands, r.Intn(total))
			}
			f := cands[r.Intn(len(cands))]
			tgt := -2
			if r.Chance(0.7) {
				tgt = r.Intn(6) - 1 // -1 = zero entity, 0..4 = first live entities
			}
			st := sim.ParStep{K: "query", F: f, Tgt: tgt}
			wr := false
			if writeRound && tgt != -2 && !usedLabels[tgt] && k == 0 {
				// a partition is written by at most one goroutine and then read by nobody else
				wr = true
			}
			usedLabels[tgt] = true
			sc = append(sc, st)
			if r.Chance(0.4) {
				sc = append(sc, sim.ParStep{K: "count"})
			}
			if r.Chance(0.3) {
				sc = append(sc, sim.ParStep{K: "entityat", N: r.Intn(50)})
			}
			if r.Chance(0.1) {
				sc = append(sc, sim.ParStep{K: "gc"})
			}
			if r.Chance(0.12) {
				sc = append(sc, sim.ParStep{K: "deadquery"})
			}
			if !writeRound && nG >= 8 && r.Chance(0.25) {
				// further queries of the same filter that stay open until the script ends: with
				// many goroutines the limit of 64 open queries is reached; an attempt beyond it
				// must be rejected with the documented panic while others keep opening and closing
				sc = append(sc, sim.ParStep{K: "burst", N: r.Range(2, 12)})
			}
			switch r.Intn(4) {
			case 0:
				sc = append(sc, sim.ParStep{K: "next", N: r.Range(1, 6), Wr: wr}, sim.ParStep{K: "close"})
			case 1:
				sc = append(sc, sim.ParStep{K: "close"})
			default:
				sc = append(sc, sim.ParStep{K: "next", N: -1, Wr: wr})
				if r.Chance(0.3) {
					sc = append(sc, sim.ParStep{K: "close"})
				}
			}
		}
		rd.Scripts = append(rd.Scripts, sc)
	}
	if writeRound {
		// In a write round every partition may be touched by one goroutine only, and
		// unpartitioned queries would read what others write: make all scripts either
		// writers of a distinct partition or drop them to read nothing.
		seen := map[int]bool{}
		for gi := range rd.Scripts {
			keep := rd.Scripts[gi][:0]
			ok := false
			for _, st := range rd.Scripts[gi] {
				if st.K == "query" {
					ok = st.Tgt != -2 && !seen[st.Tgt]
					if ok {
						seen[st.Tgt] = true
					}
				}
				if ok {
					keep = append(keep, st)
				}
			}
			rd.Scripts[gi] = keep
		}
	}
	return rd
}

func max(a, b int) int {
	if a > b {
		return a
	}
	return b
}

// writeSafe verifies that a write round is partitioned soundly on the current
// world: all filters used by writers partition on a relation type, and no two
// queries of different goroutines can reach the same entity.
func writeSafe(se *Session, rd *sim.ParRound) bool {
	owner := map[uint64]int{}
	anyWrite := false
	for gi, sc := range rd.Scripts {
		for _, st := range sc {
			if st.Wr {
				anyWrite = true
			}
			_ = gi
		}
	}
	if !anyWrite {
		return true
	}
	for gi, sc := range rd.Scripts {
		for _, st := range sc {
			if st.K != "query" || len(se.Filters) == 0 {
				continue
			}
			pf := se.Filters[st.F%len(se.Filters)]
			_, exp, _ := se.S.ParQuery(pf, st.Tgt)
			for _, h := range exp {
				k := uint64(h.ID())<<32 | uint64(h.Gen())
				if o, ok := owner[k]; ok && o != gi {
					return false
				}
				owner[k] = gi
			}
		}
	}
	return true
}

// RunSession generates and executes one session.
func RunSession(seed uint64, tier string, worker, run int, raceLog string, sched map[uint64]bool) *Result {
	r := sim.RunStream(seed, "C13", tier, worker, run)
	prof := parProfile(tier)
	cfg := sim.DrawConfig(r, prof, sim.Tiny())
	s := sim.NewSim(cfg, sim.Flags{}, prof)
	defer s.Done()
	g := sim.NewGen(r, prof, s)
	se := &Session{S: s, Sched: sched}
	res := &Result{Cfg: cfg}
	nSeg := r.Range(1, 4)
	for k := 0; k < nSeg; k++ {
		seg := sim.ParSegment{}
		nOps := r.Range(3, 14)
		if k == 0 {
			nOps = r.Range(15, 70)
		}
		for i := 0; i < nOps && !s.Fatal(); i++ {
			op := g.Next()
			seg.Ops = append(seg.Ops, op)
			s.OpIdx = res.Ops
			res.Ops++
			s.Step(&seg.Ops[len(seg.Ops)-1])
		}
		if s.Fatal() {
			res.Par.Segments = append(res.Par.Segments, seg)
			break
		}
		s.CloseAllQueries()
		rd := drawRound(r, se, g, tier)
		if rd != nil {
			se.AddFilters(rd.Filters)
			if !writeSafe(se, rd) {
				for gi := range rd.Scripts {
					for si := range rd.Scripts[gi] {
						rd.Scripts[gi][si].Wr = false
					}
				}
			}
			seg.Round = rd
			sc := se.RunRound(rd, raceLog)
			rd.Schedule = sc
			res.Rounds++
		}
		res.Par.Segments = append(res.Par.Segments, seg)
		if len(se.Viol) > 0 {
			break
		}
	}
	res.Viol = se.Viol
	res.Stats = se.Stats
	res.State = s.AbstractState()
	res.Foreign = map[string]int{}
	for _, v := range s.Viol {
		res.Foreign[v.Prop]++
	}
	for _, v := range se.Viol {
		if v.Oracle == "par.progress" {
			res.Dead = true
		}
	}
	return res
}

// Replay executes a recorded session (schedules are fed back to the scheduler).
func Replay(cfg sim.Config, par *sim.ParReplay, tier string, raceLog string, freeSchedule bool) []sim.Violation {
	prof := parProfile(tier)
	s := sim.NewSim(cfg, sim.Flags{}, prof)
	defer s.Done()
	se := &Session{S: s}
	n := 0
	for _, seg := range par.Segments {
		for i := range seg.Ops {
			s.OpIdx = n
			n++
			s.Step(&seg.Ops[i])
			if s.Fatal() {
				return se.Viol
			}
		}
		s.CloseAllQueries()
		if seg.Round != nil {
			rd := *seg.Round
			if freeSchedule {
				rd.Schedule = nil
			}
			se.AddFilters(rd.Filters)
			if !writeSafe(se, &rd) {
				for gi := range rd.Scripts {
					for si := range rd.Scripts[gi] {
						rd.Scripts[gi][si].Wr = false
					}
				}
			}
			se.RunRound(&rd, raceLog)
			if len(se.Viol) > 0 {
				break
			}
		}
	}
	return se.Viol
}
