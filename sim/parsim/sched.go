// Package parsim is engine B: simulated goroutines under a seeded baton
// scheduler that the race detector cannot see.
//
// Simulated goroutines are real goroutines, but exactly one holds the baton.
// The scheduler's state is only touched from //go:norace functions and the
// handoff uses raw read/write system calls on one pipe per goroutine, so the
// race detector sees no happens-before edge between steps other than those a
// real program would have (go statement, ark's own mutexes, the final
// WaitGroup). Which goroutine proceeds at every yield point is decided by the
// scheduler's own PRNG (or a recorded schedule on replay).
package parsim

import (
	"sync"
	"syscall"
	"unsafe"
)

// MaxTasks is the maximum number of simulated goroutines (plus main).
const MaxTasks = 80

const (
	stRunnable uint8 = iota
	stWaiting        // failed TryLock; not chosen until someone passes an unlock hook
	stDone
)

// maxSchedule bounds the recorded schedule length.
const maxSchedule = 1 << 16

type schedState struct {
	n            int // number of tasks (task n is main)
	rfd, wfd     [MaxTasks + 1]int
	state        [MaxTasks + 1]uint8
	cur          int
	rng          uint64
	stay         uint64 // probability (out of 256) to keep the current task at a yield
	sched        [maxSchedule]int16
	schedLen     int
	replay       []int16
	replayAt     int
	steps        int
	switches     int
	inLock       int // preemptions inside a LockSafe critical section
	sharedSwitch int // preemptions between a load and a store of the shared filter hint
	deadlock     bool
	active       bool
	gcEvery      int
	gcHook       func()
	tryFails     int
	stall        [MaxTasks + 1]int // remaining yields for which a task is not chosen
	stalls       int
}

var st schedState

//go:norace
func rnd() uint64 {
	st.rng ^= st.rng << 13
	st.rng ^= st.rng >> 7
	st.rng ^= st.rng << 17
	return st.rng
}

//go:norace
func park(id int) {
	var b [1]byte
	for {
		n, _, e := syscall.Syscall(syscall.SYS_READ, uintptr(st.rfd[id]), uintptr(unsafe.Pointer(&b[0])), 1)
		if n == 1 {
			return
		}
		if e == syscall.EINTR || e == syscall.EAGAIN {
			continue
		}
		panic("parsim: pipe read failed")
	}
}

//go:norace
func wake(id int) {
	b := [1]byte{1}
	for {
		n, _, e := syscall.Syscall(syscall.SYS_WRITE, uintptr(st.wfd[id]), uintptr(unsafe.Pointer(&b[0])), 1)
		if n == 1 {
			return
		}
		if e == syscall.EINTR || e == syscall.EAGAIN {
			continue
		}
		panic("parsim: pipe write failed")
	}
}

// pick chooses the next task among the runnable ones (-1: none).
//
//go:norace
func pick(allowCur bool) int {
	if st.replay != nil {
		if st.replayAt < len(st.replay) {
			c := int(st.replay[st.replayAt])
			st.replayAt++
			if c >= 0 && c < st.n && st.state[c] == stRunnable {
				record(c)
				return c
			}
		}
		// schedule exhausted or not applicable (minimised replay): fall through to the PRNG
	}
	if allowCur && st.state[st.cur] == stRunnable && (rnd()&255) < st.stay {
		record(st.cur)
		return st.cur
	}
	cnt := 0
	for i := 0; i < st.n; i++ {
		if st.state[i] == stRunnable && st.stall[i] == 0 {
			cnt++
		}
	}
	if cnt == 0 {
		// stalled tasks become eligible again when nothing else can run
		for i := 0; i < st.n; i++ {
			st.stall[i] = 0
			if st.state[i] == stRunnable {
				cnt++
			}
		}
	}
	if cnt == 0 {
		return -1
	}
	k := int(rnd() % uint64(cnt))
	for i := 0; i < st.n; i++ {
		if st.stall[i] > 0 {
			st.stall[i]--
			continue
		}
		if st.state[i] == stRunnable {
			if k == 0 {
				record(i)
				return i
			}
			k--
		}
	}
	return -1
}

//go:norace
func record(c int) {
	if st.schedLen < maxSchedule {
		st.sched[st.schedLen] = int16(c)
		st.schedLen++
	}
}

// switchTo hands the baton to task `next` and parks the current task.
//
//go:norace
func switchTo(next int) {
	me := st.cur
	if next == me {
		return
	}
	st.switches++
	st.cur = next
	wake(next)
	park(me)
}

// yield is a scheduling point of the current task.
//
//go:norace
func yield() {
	if !st.active {
		return
	}
	st.steps++
	// stall fault: occasionally the current task is not chosen for a while
	if st.replay == nil && (rnd()&1023) < 12 {
		st.stall[st.cur] = int(rnd()%6) + 1
		st.stalls++
	}
	next := pick(true)
	if next < 0 {
		return
	}
	switchTo(next)
}

// hook is installed as ecs.Verif.Yield.
//
//go:norace
func hook(kind uint8, mu *sync.Mutex) {
	if !st.active {
		return
	}
	switch kind {
	case 0: // before mu.Lock(): wait cooperatively until the mutex is free
		yield()
		for !mu.TryLock() {
			st.tryFails++
			st.state[st.cur] = stWaiting
			next := pick(false)
			if next < 0 {
				// every unfinished task waits for a mutex nobody will release
				st.deadlock = true
				st.state[st.cur] = stRunnable
				wake(st.n) // hand over to main, which reports the deadlock
				park(st.cur)
				return
			}
			switchTo(next)
		}
		mu.Unlock()
	case 1: // inside the critical section
		before := st.switches
		yield()
		if st.switches != before {
			st.inLock++
		}
	case 3: // between a load and a store of state shared without a lock (filter hint)
		before := st.switches
		yield()
		if st.switches != before {
			st.sharedSwitch++
		}
	default: // after mu.Unlock(): waiters may try again
		for i := 0; i < st.n; i++ {
			if st.state[i] == stWaiting {
				st.state[i] = stRunnable
			}
		}
		yield()
	}
}

// finish marks the current task done and hands the baton on (to main when all are done).
//
//go:norace
func finish() {
	me := st.cur
	st.state[me] = stDone
	for i := 0; i < st.n; i++ {
		if st.state[i] == stWaiting {
			st.state[i] = stRunnable
		}
	}
	next := pick(false)
	if next < 0 {
		left := 0
		for i := 0; i < st.n; i++ {
			if st.state[i] != stDone {
				left++
			}
		}
		if left > 0 {
			st.deadlock = true
		}
		next = st.n
	}
	st.cur = next
	wake(next)
}

// setup prepares the scheduler for a round with n tasks.
//
//go:norace
func setup(n int, seed uint64, stay int, replay []int16) {
	for i := 0; i <= st.n && i <= MaxTasks; i++ {
		if st.rfd[i] != 0 {
			syscall.Close(st.rfd[i])
			syscall.Close(st.wfd[i])
			st.rfd[i], st.wfd[i] = 0, 0
		}
	}
	st.n = n
	for i := 0; i <= n; i++ {
		var p [2]int
		if err := syscall.Pipe(p[:]); err != nil {
			panic("parsim: pipe: " + err.Error())
		}
		st.rfd[i], st.wfd[i] = p[0], p[1]
		st.state[i] = stRunnable
		st.stall[i] = 0
	}
	st.rng = seed*0x9E3779B97F4A7C15 + 0x1234567
	if st.rng == 0 {
		st.rng = 1
	}
	st.stay = uint64(stay)
	st.schedLen = 0
	st.replay = replay
	st.replayAt = 0
	st.steps, st.switches, st.inLock, st.tryFails, st.stalls = 0, 0, 0, 0, 0
	st.sharedSwitch = 0
	st.deadlock = false
	st.cur = n
}

// start gives the baton to the first task and parks main until all tasks are done.
//
//go:norace
func start() {
	st.active = true
	first := pick(false)
	if first < 0 {
		st.active = false
		return
	}
	st.cur = first
	wake(first)
	park(st.n)
	st.active = false
}

//go:norace
func snapshot() (schedule []int16, steps, switches, inLock, tryFails, stalls int, deadlock bool) {
	schedule = make([]int16, st.schedLen)
	copy(schedule, st.sched[:st.schedLen])
	return schedule, st.steps, st.switches, st.inLock, st.tryFails, st.stalls, st.deadlock
}

//go:norace
func sharedSwitches() int { return st.sharedSwitch }
