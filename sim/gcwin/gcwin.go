// Package gcwin is engine G of the C11 check: it places single ark operations
// inside the concurrent mark phase of a garbage collection.
//
// The garbage collector is the one "second party" that touches component
// memory concurrently with ark. Which operations it overlaps is normally not
// under the control of a test. Here it is made a controlled fault: the world of
// a trial is reachable for the collector only through the far end of a long
// linked list (which it can only walk sequentially), while the harness reaches
// the world through addresses the collector does not see. A collection is
// started, the harness waits until it is busy walking the list (stacks and
// globals are scanned by then, the component arrays are not), and performs one
// seeded operation that moves, clears or hands out component memory. If ark
// moves or clears pointer-bearing memory without the write barriers the Go
// runtime needs, the collector misses the object: it is freed although a
// component (or a pointer the caller took from a component) still refers to it.
//
// Oracle: after the cycle every pointee of every alive component is still
// allocated (weak pointer) and intact (magic, value, inverse); so is every
// pointee the caller took out of a component before removing it.
//
// A trial is a pure function of (seed, worker, run) except for the timing of
// the collector. A clean trial proves nothing; a failing one shows a real
// use-after-free. Failing trials are re-run from their seed on replay.
package gcwin

import (
	"fmt"
	"runtime"
	"runtime/debug"
	"time"
	"unsafe"
	"weak"

	"github.com/mlange-42/ark/ecs"
)

// Obj is the pointee all payload kinds ultimately refer to.
type Obj struct {
	Magic uint64
	V     uint64
	Inv   uint64
	Pad   [5]uint64
}

const objMagic = 0x6f626a5f6c697665

//go:noinline
func newObj(v uint64) *Obj { return &Obj{Magic: objMagic, V: v, Inv: ^v} }

func objOK(o *Obj, v uint64) string {
	if o == nil {
		return "nil pointee"
	}
	if o.Magic != objMagic || o.V != v || o.Inv != ^v {
		return fmt.Sprintf("pointee damaged: magic=%#x v=%#x inv=%#x, expected value %#x", o.Magic, o.V, o.Inv, v)
	}
	return ""
}

// Other, Other2 are plain components used to move entities between tables.
type (
	Other  struct{ X uint64 }
	Other2 struct{ X, Y uint64 }
	// Plain types whose registration is rolled back in the "rollback" prelude.
	Triv0 struct{ A uint64 }
	Triv1 struct{ A, B uint32 }
)

// Payload component types: every way a Go value can hold a reference.
type (
	PPtr    struct{ P *Obj }
	PSlice  struct{ S []*Obj }
	PMap    struct{ M map[uint64]*Obj }
	PFunc   struct{ F func() *Obj }
	PUnsafe struct{ P unsafe.Pointer }
	PIface  struct{ I any }
	PChan   struct{ C chan *Obj }
	PNested struct {
		X uint64
		A [2]struct {
			Y uint64
			P *Obj
		}
	}
	PFuncArr struct {
		X uint64
		F [2]func() *Obj
	}
	PString struct {
		S string
		P *Obj
	}
	PUnsafeArr struct {
		A [3]unsafe.Pointer
	}
)

// Ops lists the operations a trial can place inside the mark phase.
var Ops = []string{"move_add", "move_remove", "swap_remove", "batch_move", "grow", "take_remove_last", "take_remove_comp", "take_remove_swap", "copy_entity", "shrink", "new_into_recycled", "exchange", "take_reset", "take_remove_batch", "take_remove_comp_batch"}

// Trial describes one trial (all fields derive from the seed).
type Trial struct {
	Seed     uint64 `json:"seed"`
	Worker   int    `json:"worker"`
	Run      int    `json:"run"`
	Kind     string `json:"kind"`
	Op       string `json:"op"`
	Extra    int    `json:"extra"`    // entities in the table besides the probed one
	Div      int    `json:"div"`      // the operation starts after cycle/Div
	Rollback bool   `json:"rollback"` // prelude: a registration on a locked world is rolled back first
	Capacity int    `json:"capacity"`
}

// Outcome of a trial.
type Outcome struct {
	Trial   Trial
	Hit     bool   // the collection was still running when the operation returned
	Viol    string // "" if the trial passed
	Sig     string
	CycleMs float64
}

type kind struct {
	name string
	run  func(t *Trial) Outcome
}

var kinds []kind

// KindNames lists the payload kinds.
func KindNames() []string {
	var out []string
	for _, k := range kinds {
		out = append(out, k.name)
	}
	return out
}

func init() {
	reg(spec[PPtr]{"ptr", func(p *PPtr, o *Obj) { p.P = o }, func(p *PPtr) *Obj { return p.P }})
	reg(spec[PSlice]{"slice", func(p *PSlice, o *Obj) { p.S = []*Obj{nil, o} }, func(p *PSlice) *Obj {
		if len(p.S) != 2 {
			return nil
		}
		return p.S[1]
	}})
	reg(spec[PMap]{"map", func(p *PMap, o *Obj) { p.M = map[uint64]*Obj{7: o} }, func(p *PMap) *Obj { return p.M[7] }})
	reg(spec[PFunc]{"func", func(p *PFunc, o *Obj) { p.F = func() *Obj { return o } }, func(p *PFunc) *Obj {
		if p.F == nil {
			return nil
		}
		return p.F()
	}})
	reg(spec[PUnsafe]{"unsafe_pointer", func(p *PUnsafe, o *Obj) { p.P = unsafe.Pointer(o) }, func(p *PUnsafe) *Obj { return (*Obj)(p.P) }})
	reg(spec[PIface]{"interface", func(p *PIface, o *Obj) { p.I = o }, func(p *PIface) *Obj {
		o, _ := p.I.(*Obj)
		return o
	}})
	reg(spec[PChan]{"chan", func(p *PChan, o *Obj) {
		p.C = make(chan *Obj, 1)
		p.C <- o
	}, func(p *PChan) *Obj {
		if p.C == nil || len(p.C) != 1 {
			return nil
		}
		o := <-p.C
		p.C <- o
		return o
	}})
	reg(spec[PNested]{"nested_array", func(p *PNested, o *Obj) { p.X = 1; p.A[1].P = o }, func(p *PNested) *Obj { return p.A[1].P }})
	reg(spec[PFuncArr]{"func_array", func(p *PFuncArr, o *Obj) { p.F[1] = func() *Obj { return o } }, func(p *PFuncArr) *Obj {
		if p.F[1] == nil {
			return nil
		}
		return p.F[1]()
	}})
	reg(spec[PString]{"string_ptr", func(p *PString, o *Obj) { p.S = fmt.Sprint("v", o.V); p.P = o }, func(p *PString) *Obj {
		if p.P != nil && p.S != fmt.Sprint("v", p.P.V) {
			return nil
		}
		return p.P
	}})
	reg(spec[PUnsafeArr]{"unsafe_pointer_array", func(p *PUnsafeArr, o *Obj) { p.A[2] = unsafe.Pointer(o) }, func(p *PUnsafeArr) *Obj { return (*Obj)(p.A[2]) }})
}

type spec[T any] struct {
	name string
	put  func(p *T, o *Obj) // makes *p the only holder of a reference to o
	get  func(p *T) *Obj
}

func reg[T any](sp spec[T]) {
	kinds = append(kinds, kind{sp.name, func(t *Trial) Outcome { return runTrial(sp, t) }})
}

// ---------------------------------------------------------------------------
// the ballast: the only GC root from which the world of a trial is reachable

type node struct {
	next *node
	tail *tail
}

type tail struct {
	keep []any
}

var (
	chain     *node
	chainEnd  uintptr // the last node, hidden from the collector: a global would be a root
	cycleTime time.Duration
)

func lastNode() *node { return *(**node)(unsafe.Pointer(&chainEnd)) }

// ChainLen is the number of ballast nodes the collector has to walk before it reaches the world.
var ChainLen = 1_500_000

//go:noinline
func buildChain() {
	head := &node{}
	n := head
	for i := 0; i < ChainLen; i++ {
		n.next = &node{}
		n = n.next
	}
	chain, chainEnd = head, uintptr(unsafe.Pointer(n))
}

// Prepare builds the ballast and calibrates the duration of a collection cycle.
// Automatic collections are switched off for the rest of the process.
func Prepare() {
	if chain != nil {
		return
	}
	debug.SetGCPercent(-1)
	runtime.GC()
	buildChain()
	runtime.GC()
	best := time.Duration(0)
	for i := 0; i < 3; i++ {
		start := time.Now()
		runtime.GC()
		if d := time.Since(start); best == 0 || d < best {
			best = d
		}
	}
	cycleTime = best
}

// ---------------------------------------------------------------------------

type entRec struct {
	e     ecs.Entity
	v     uint64
	alive bool
	w     weak.Pointer[Obj]
}

// hidden is what the harness keeps of a trial's world: no strong reference.
type hidden struct {
	world  uintptr
	m      uintptr // *ecs.Map[T]
	other  uintptr // *ecs.Map[Other]
	other2 uintptr // *ecs.Map[Other2]
	filter uintptr // *ecs.Filter1[T]
	ex     uintptr // *ecs.Exchange1[Other2]
	ents   []entRec
	probe  int // index into ents of the probed entity
	next   uint64
}

type trialTail[T any] struct {
	w      *ecs.World
	m      *ecs.Map[T]
	other  *ecs.Map[Other]
	other2 *ecs.Map[Other2]
	filter *ecs.Filter1[T]
	ex     *ecs.Exchange1[Other2]
}

func try(f func()) (panicked bool) {
	defer func() {
		if recover() != nil {
			panicked = true
		}
	}()
	f()
	return false
}

// setup creates the world of a trial at the far end of the ballast. It runs in its own
// goroutine so that no stack frame of the trial goroutine ever holds a reference.
//
//go:noinline
func setup[T any](sp spec[T], t *Trial) *hidden {
	w := ecs.NewWorld(t.Capacity)
	if t.Rollback {
		// a registration on a locked world is rolled back; the next type gets the same ID
		q := ecs.NewFilter0(w).Query()
		if t.Run%2 == 0 {
			try(func() { ecs.ComponentID[Triv0](w) })
		} else {
			try(func() { ecs.ComponentID[Triv1](w) })
		}
		q.Close()
	}
	tt := &trialTail[T]{w: w, m: ecs.NewMap[T](w), other: ecs.NewMap[Other](w), other2: ecs.NewMap[Other2](w)}
	tt.filter = ecs.NewFilter1[T](w)
	tt.ex = ecs.NewExchange1[Other2](w).Removes(ecs.C[Other]())
	h := &hidden{next: uint64(t.Run)*1000 + 17}
	mk := func() entRec {
		h.next++
		o := newObj(h.next)
		var c T
		sp.put(&c, o)
		e := tt.m.NewEntity(&c)
		return entRec{e: e, v: h.next, alive: true, w: weak.Make(o)}
	}
	withOther := t.Op == "move_remove" || t.Op == "exchange"
	n := t.Extra
	for i := 0; i < n; i++ {
		r := mk()
		if withOther {
			tt.other.Add(r.e, &Other{X: r.v})
		}
		h.ents = append(h.ents, r)
	}
	r := mk()
	if withOther {
		tt.other.Add(r.e, &Other{X: r.v})
	}
	h.ents = append(h.ents, r)
	h.probe = len(h.ents) - 1
	switch t.Op {
	case "swap_remove", "take_remove_swap":
		// the probed entity is the first row: removing it swaps the last row into its place
		h.probe = 0
	case "new_into_recycled", "shrink":
		// many entities that are removed again: vacated rows, later reused / shrunk away
		for i := 0; i < 70; i++ {
			h.ents = append(h.ents, mk())
		}
	}
	lastNode().tail = &tail{keep: []any{tt}}
	h.world = uintptr(unsafe.Pointer(tt.w))
	h.m = uintptr(unsafe.Pointer(tt.m))
	h.other = uintptr(unsafe.Pointer(tt.other))
	h.other2 = uintptr(unsafe.Pointer(tt.other2))
	h.filter = uintptr(unsafe.Pointer(tt.filter))
	h.ex = uintptr(unsafe.Pointer(tt.ex))
	return h
}

func ptrOf[P any](u *uintptr) *P { return *(**P)(unsafe.Pointer(u)) }

// act performs the seeded operation; it returns a pointee the caller took out of a
// component before removing it (or nil) and the value it must have.
//
//go:noinline
func act[T any](sp spec[T], h *hidden, t *Trial) (*Obj, uint64) {
	w := ptrOf[ecs.World](&h.world)
	m := ptrOf[ecs.Map[T]](&h.m)
	other := ptrOf[ecs.Map[Other]](&h.other)
	other2 := ptrOf[ecs.Map[Other2]](&h.other2)
	filter := ptrOf[ecs.Filter1[T]](&h.filter)
	ex := ptrOf[ecs.Exchange1[Other2]](&h.ex)
	p := &h.ents[h.probe]
	switch t.Op {
	case "move_add":
		// moves the entity into a table that is created at this moment
		other.Add(p.e, &Other{X: 1})
	case "move_remove":
		other.Remove(p.e)
	case "exchange":
		ex.Exchange(p.e, &Other2{X: 2})
	case "swap_remove":
		w.RemoveEntity(p.e)
		p.alive = false
	case "batch_move":
		other2.AddBatch(filter.Batch(), &Other2{X: 3})
	case "grow":
		// the table outgrows its capacity: all rows are copied into a new array
		n := t.Capacity*2 + 70
		for i := 0; i < n; i++ {
			h.next++
			o := newObj(h.next)
			var c T
			sp.put(&c, o)
			e := m.NewEntity(&c)
			h.ents = append(h.ents, entRec{e: e, v: h.next, alive: true, w: weak.Make(o)})
		}
	case "take_remove_last", "take_remove_swap":
		o := sp.get(m.Get(p.e))
		w.RemoveEntity(p.e)
		p.alive = false
		return o, p.v
	case "take_remove_comp":
		o := sp.get(m.Get(p.e))
		other.Add(p.e, &Other{X: 4}) // so that the entity keeps a component
		m.Remove(p.e)
		p.alive = false
		return o, p.v
	case "take_reset", "take_remove_batch", "take_remove_comp_batch":
		// whole tables are cleared at once (<= 64 rows and more take different paths)
		o := sp.get(m.Get(p.e))
		switch t.Op {
		case "take_reset":
			w.Reset()
		case "take_remove_batch":
			w.RemoveEntities(filter.Batch(), nil)
		default:
			other2.AddBatch(filter.Batch(), &Other2{X: 5}) // so that the entities keep a component
			m.RemoveBatch(filter.Batch(), nil)
		}
		for i := range h.ents {
			h.ents[i].alive = false
		}
		return o, p.v
	case "copy_entity":
		// the copy shares the pointee
		c := w.CopyEntity(p.e)
		h.ents = append(h.ents, entRec{e: c, v: p.v, alive: true, w: p.w})
	case "shrink":
		for i := range h.ents {
			if i != h.probe && h.ents[i].alive && i%8 != 0 {
				w.RemoveEntity(h.ents[i].e)
				h.ents[i].alive = false
			}
		}
		w.Shrink()
	case "new_into_recycled":
		for i := range h.ents {
			if i != h.probe && h.ents[i].alive && i%3 != 0 {
				w.RemoveEntity(h.ents[i].e)
				h.ents[i].alive = false
			}
		}
		for i := 0; i < 20; i++ {
			h.next++
			o := newObj(h.next)
			var c T
			sp.put(&c, o)
			e := m.NewEntity(&c)
			h.ents = append(h.ents, entRec{e: e, v: h.next, alive: true, w: weak.Make(o)})
		}
	}
	return nil, 0
}

// verify checks all alive components of the trial's world.
//
//go:noinline
func verify[T any](sp spec[T], h *hidden) string {
	w := ptrOf[ecs.World](&h.world)
	m := ptrOf[ecs.Map[T]](&h.m)
	for i := range h.ents {
		r := &h.ents[i]
		if !r.alive {
			continue
		}
		if !w.Alive(r.e) {
			return fmt.Sprintf("entity %v is not alive any more", r.e)
		}
		if r.w.Value() == nil {
			return fmt.Sprintf("the object referenced by the component of alive entity %v (row %d of %d) was garbage collected", r.e, i, len(h.ents))
		}
		if msg := objOK(sp.get(m.Get(r.e)), r.v); msg != "" {
			return fmt.Sprintf("component of alive entity %v (row %d of %d): %s", r.e, i, len(h.ents), msg)
		}
	}
	return ""
}

func runTrial[T any](sp spec[T], t *Trial) Outcome {
	Prepare()
	out := Outcome{Trial: *t, CycleMs: float64(cycleTime.Microseconds()) / 1000}
	ch := make(chan *hidden)
	go func() { ch <- setup(sp, t) }()
	h := <-ch

	done := make(chan struct{})
	go func() {
		runtime.GC()
		close(done)
	}()
	// let the cycle start and scan stacks and globals; it is then busy walking the ballast
	time.Sleep(cycleTime / time.Duration(t.Div))
	taken, tv := act(sp, h, t)
	select {
	case <-done:
	default:
		out.Hit = true
	}
	<-done

	fail := func(msg string) Outcome {
		out.Viol = msg
		out.Sig = "C11/gc.window/" + t.Kind + "/" + t.Op
		return out
	}
	takes := len(t.Op) > 5 && t.Op[:5] == "take_"
	// First the weak pointers only (no pointee is dereferenced, no further collection runs):
	// an object that was freed in this cycle although it is still referenced must not be
	// touched again, the runtime would abort the process in the next cycle.
	if msg := verifyWeak(h, takes); msg != "" {
		taken = nil
		lastNode().tail = nil
		return fail(msg)
	}
	runtime.GC() // unmarked objects are freed for certain now (and clobbered with GODEBUG=clobberfree=1)
	if takes {
		if msg := objOK(taken, tv); msg != "" {
			taken = nil
			lastNode().tail = nil
			return fail(fmt.Sprintf("the caller took the pointer out of the component and then removed it (%s): %s", t.Op, msg))
		}
	}
	msg := verify(sp, h)
	runtime.KeepAlive(taken)
	lastNode().tail = nil
	if msg != "" {
		return fail(msg)
	}
	return out
}

// verifyWeak checks that no pointee that is still referenced was collected.
func verifyWeak(h *hidden, takes bool) string {
	if takes && h.ents[h.probe].w.Value() == nil {
		return "the caller took the pointer out of the component and then removed the component; the object was garbage collected although the caller still holds the pointer"
	}
	for i := range h.ents {
		r := &h.ents[i]
		if r.alive && r.w.Value() == nil {
			return fmt.Sprintf("the object referenced by the component of alive entity %v (row %d of %d) was garbage collected", r.e, i, len(h.ents))
		}
	}
	return ""
}

// ---------------------------------------------------------------------------

type rng struct{ s uint64 }

func (r *rng) next() uint64 {
	r.s += 0x9e3779b97f4a7c15
	z := r.s
	z = (z ^ (z >> 30)) * 0xbf58476d1ce4e5b9
	z = (z ^ (z >> 27)) * 0x94d049bb133111eb
	return z ^ (z >> 31)
}

func (r *rng) intn(n int) int { return int(r.next() % uint64(n)) }

// Derive derives the trial of (seed, worker, run).
func Derive(seed uint64, worker, run int) Trial {
	r := &rng{s: seed*0x100000001b3 ^ uint64(worker)<<40 ^ uint64(run)<<8 ^ 0x67637769}
	r.next()
	t := Trial{Seed: seed, Worker: worker, Run: run}
	t.Kind = kinds[r.intn(len(kinds))].name
	t.Op = Ops[r.intn(len(Ops))]
	t.Extra = []int{0, 1, 2, 5, 17, 40, 70, 130}[r.intn(8)]
	if t.Op == "swap_remove" || t.Op == "take_remove_swap" {
		if t.Extra == 0 {
			t.Extra = 3
		}
	}
	t.Div = 2 + r.intn(7)
	t.Rollback = r.intn(4) == 0
	t.Capacity = []int{1, 4, 16, 128}[r.intn(4)]
	return t
}

// Run executes the trial of (seed, worker, run).
func Run(seed uint64, worker, run int) Outcome {
	t := Derive(seed, worker, run)
	for _, k := range kinds {
		if k.name == t.Kind {
			return k.run(&t)
		}
	}
	panic("unknown kind " + t.Kind)
}
