package gcwin

import (
	"os"
	"strconv"
	"testing"
	"time"
)

func TestTrials(t *testing.T) {
	n := 200
	if s := os.Getenv("GCWIN_N"); s != "" {
		n, _ = strconv.Atoi(s)
	}
	start := time.Now()
	hits, fails := 0, 0
	sigs := map[string]int{}
	for i := 0; i < n; i++ {
		o := Run(1, 0, i)
		if o.Hit {
			hits++
		}
		if o.Viol != "" {
			fails++
			sigs[o.Sig]++
			if sigs[o.Sig] == 1 {
				t.Logf("%+v: %s", o.Trial, o.Viol)
			}
		}
	}
	t.Logf("trials=%d hits=%d fails=%d cycle=%v wall=%v", n, hits, fails, cycleTime, time.Since(start))
	for s, c := range sigs {
		t.Logf("  %s: %d", s, c)
	}
}
