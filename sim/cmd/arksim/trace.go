package main

import (
	"bufio"
	"encoding/json"
	"flag"
	"fmt"
	"hash/fnv"
	"os"
	"os/exec"
	"path/filepath"
	"strings"
	"time"

	"arkverif/sim"
)

// Engine C: trace differential across repetitions, processes (C12) and builds (C20).

// History is one recorded run.
type History struct {
	Cfg sim.Config `json:"cfg"`
	Ops []sim.Op   `json:"ops"`
}

func hashTrace(tr []string) string {
	h := fnv.New64a()
	for _, l := range tr {
		h.Write([]byte(l))
		h.Write([]byte{'\n'})
	}
	return fmt.Sprintf("%016x", h.Sum64())
}

// cmdTrace: arksim trace -in <file with []History> [-full i]: prints one hash per history.
func cmdTrace(args []string) int {
	fs := flag.NewFlagSet("trace", flag.ExitOnError)
	in := fs.String("in", "", "file with a JSON list of histories")
	prop := fs.String("prop", "C12", "property (profile)")
	full := fs.Int("full", -1, "print the full trace of history i")
	fs.Parse(args)
	b, err := os.ReadFile(*in)
	if err != nil {
		fmt.Fprintln(os.Stderr, err)
		return 2
	}
	var hs []History
	if err := json.Unmarshal(b, &hs); err != nil {
		fmt.Fprintln(os.Stderr, err)
		return 2
	}
	w := bufio.NewWriter(os.Stdout)
	defer w.Flush()
	for i, h := range hs {
		tr := sim.TraceOf(*prop, h.Cfg, h.Ops)
		if *full == i {
			for _, l := range tr {
				fmt.Fprintln(w, l)
			}
			continue
		}
		if *full < 0 {
			fmt.Fprintln(w, hashTrace(tr))
		}
	}
	return 0
}

func otherBuilds() []string {
	dir := filepath.Dir(os.Args[0])
	return []string{filepath.Join(dir, "arksim-tiny"), filepath.Join(dir, "arksim-debug"), filepath.Join(dir, "arksim-tinydebug")}
}

// childTraces runs `bin trace` on a history file and returns the full traces.
func childFull(bin, prop, file string, idx int) ([]string, error) {
	out, err := exec.Command(bin, "trace", "-prop", prop, "-in", file, "-full", fmt.Sprint(idx)).CombinedOutput()
	if err != nil {
		return nil, fmt.Errorf("%s: %v: %s", bin, err, tail(string(out), 1500))
	}
	return strings.Split(strings.TrimRight(string(out), "\n"), "\n"), nil
}

func childHashes(bin, prop, file string) ([]string, error) {
	out, err := exec.Command(bin, "trace", "-prop", prop, "-in", file).CombinedOutput()
	if err != nil {
		return nil, fmt.Errorf("%s: %v: %s", bin, err, tail(string(out), 1500))
	}
	return strings.Fields(string(out)), nil
}

func firstDiff(a, b []string) (int, string) {
	for i := 0; i < len(a) && i < len(b); i++ {
		if a[i] != b[i] {
			return i, fmt.Sprintf("line %d: %q vs %q", i, clipS(a[i], 300), clipS(b[i], 300))
		}
	}
	if len(a) != len(b) {
		return min(len(a), len(b)), fmt.Sprintf("trace lengths %d vs %d", len(a), len(b))
	}
	return -1, ""
}

func clipS(s string, n int) string {
	if len(s) > n {
		return s[:n] + "..."
	}
	return s
}

func opKindOfLine(line string, ops []sim.Op) string {
	var idx int
	if _, err := fmt.Sscanf(line, "%d ", &idx); err == nil && idx >= 0 && idx < len(ops) {
		k := ops[idx].K
		if ops[idx].M != "" {
			k += ":" + ops[idx].M
		}
		return k
	}
	if strings.HasPrefix(line, "final") {
		return "final_stats"
	}
	return "?"
}

// traceViolation compares the traces of one history across repetitions / processes / builds.
// repeats: in-process repetitions; procs: fresh processes of this binary; builds: other binaries.
func traceViolation(prop string, h History, repeats, procs int, tmpDir string) (*sim.Violation, error) {
	// another world lived in this process before: the same history with the component types
	// registered in another order (its trace is not compared); the child processes start clean
	sim.TraceOf(prop, sim.PollutedCfg(h.Cfg), h.Ops)
	ref := sim.TraceOf(prop, h.Cfg, h.Ops)
	for r := 0; r < repeats; r++ {
		tr := sim.TraceOf(prop, h.Cfg, h.Ops)
		if i, d := firstDiff(ref, tr); i >= 0 {
			line := ""
			if i < len(ref) {
				line = ref[i]
			}
			k := opKindOfLine(line, h.Ops)
			return &sim.Violation{Prop: prop, Oracle: "det.trace", Sig: prop + "/det.trace/inprocess/" + k, OpIdx: i,
				Msg: "two executions of the same history in one process differ: " + d}, nil
		}
	}
	if procs == 0 && prop != "C20" {
		return nil, nil
	}
	f, err := os.CreateTemp(tmpDir, "hist-*.json")
	if err != nil {
		return nil, err
	}
	defer os.Remove(f.Name())
	b, _ := json.Marshal([]History{h})
	f.Write(b)
	f.Close()
	if prop == "C20" {
		for _, bin := range otherBuilds() {
			tr, err := childFull(bin, prop, f.Name(), 0)
			if err != nil {
				return nil, err
			}
			if i, d := firstDiff(ref, tr); i >= 0 {
				line := ""
				if i < len(ref) {
					line = ref[i]
				}
				k := opKindOfLine(line, h.Ops)
				return &sim.Violation{Prop: prop, Oracle: "build.trace", Sig: prop + "/build.trace/" + strings.TrimPrefix(filepath.Base(bin), "arksim-") + "/" + k, OpIdx: i,
					Msg: "default build and " + filepath.Base(bin) + " differ: " + d}, nil
			}
		}
		return nil, nil
	}
	for p := 0; p < procs; p++ {
		tr, err := childFull(os.Args[0], prop, f.Name(), 0)
		if err != nil {
			return nil, err
		}
		if i, d := firstDiff(ref, tr); i >= 0 {
			line := ""
			if i < len(ref) {
				line = ref[i]
			}
			k := opKindOfLine(line, h.Ops)
			return &sim.Violation{Prop: prop, Oracle: "det.trace", Sig: prop + "/det.trace/process/" + k, OpIdx: i,
				Msg: "executions of the same history in two processes differ: " + d}, nil
		}
	}
	return nil, nil
}

// workTrace is the worker loop of C12 / C20.
func workTrace(prop, tier string, seed uint64, worker int, budget float64, maxRuns int, o *WorkerOut, states map[uint64]bool) {
	start := time.Now()
	for run := 0; run < maxRuns; run += 16 {
		if time.Since(start).Seconds() > budget {
			break
		}
		end := run + 16
		if end > maxRuns {
			end = maxRuns
		}
		noteProgress(prop, "C", tier, seed, worker, run, "")
		workTraceRuns(prop, tier, seed, worker, run, end, o, states)
	}
}

// workTraceRuns executes runs [from, to) of a trace worker as one batch.
func workTraceRuns(prop, tier string, seed uint64, worker int, from, to int, o *WorkerOut, states map[uint64]bool) {
	tmpDir := filepath.Join(verifDir, "tmp")
	batch := to - from
	maxRuns := to
	for run := from; run < maxRuns; {
		var hs []History
		var refs []string
		var results []*sim.RunResult
		for k := 0; k < batch && run < maxRuns; k++ {
			res := sim.RunMode(prop, tier, seed, worker, run, "")
			run++
			h := History{Cfg: res.Cfg, Ops: res.Ops}
			if run%4 == 0 {
				sim.TraceOf(prop, sim.PollutedCfg(h.Cfg), h.Ops) // see traceViolation
				o.Extra["other_world_before_in_same_process"]++
			}
			ref := sim.TraceOf(prop, h.Cfg, h.Ops)
			hs = append(hs, h)
			refs = append(refs, hashTrace(ref))
			results = append(results, res)
			o.Extra["trace_lines"] += len(ref)
		}
		suspicious := map[int]bool{}
		// in-process repetitions
		reps := 7
		if prop == "C20" {
			reps = 1
		}
		for i, h := range hs {
			for r := 0; r < reps; r++ {
				o.Extra["inprocess_repeats"]++
				if hashTrace(sim.TraceOf(prop, h.Cfg, h.Ops)) != refs[i] {
					suspicious[i] = true
				}
			}
		}
		// other processes / builds, one process per batch
		f, _ := os.CreateTemp(tmpDir, "batch-*.json")
		b, _ := json.Marshal(hs)
		f.Write(b)
		f.Close()
		bins := []string{os.Args[0], os.Args[0], os.Args[0]}
		if prop == "C20" {
			bins = otherBuilds()
		}
		for _, bin := range bins {
			hsh, err := childHashes(bin, prop, f.Name())
			if err != nil || len(hsh) != len(hs) {
				panic(fmt.Sprintf("trace child %s failed: %v (%d hashes for %d histories)", bin, err, len(hsh), len(hs)))
			}
			o.Extra["child_process_traces"] += len(hsh)
			for i := range hs {
				if hsh[i] != refs[i] {
					suspicious[i] = true
				}
			}
		}
		os.Remove(f.Name())
		for i, res := range results {
			res.Viol = nil // only the trace oracle belongs to this property
			if suspicious[i] {
				v, err := traceViolation(prop, hs[i], 8, 3, tmpDir)
				if err != nil {
					panic(err)
				}
				if v != nil {
					res.Viol = []sim.Violation{*v}
				}
			}
			res.NonTriv = len(res.Ops) > 10 && res.Entities >= 0
			o.absorb(prop, res, "trace", states, tier)
		}
	}
}

// execTraceMode re-executes a history for replay/minimisation of C12/C20.
func execTraceMode(prop string, cfg sim.Config, ops []sim.Op) []sim.Violation {
	reps, procs := 64, 6
	if prop == "C20" {
		reps, procs = 0, 0
	}
	v, err := traceViolation(prop, History{Cfg: cfg, Ops: ops}, reps, procs, filepath.Join(verifDir, "tmp"))
	if err != nil {
		panic(err)
	}
	if v == nil {
		return nil
	}
	return []sim.Violation{*v}
}

func checkTrace(prop, tier string, seed uint64) int {
	return runWorkers(prop, tier, seed, "C")
}
