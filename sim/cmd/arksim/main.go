// Command arksim is the deterministic-simulation harness for mlange-42/ark.
//
//	arksim check  -prop C01 -tier quick      driver: workers, minimisation, replay verification, evidence
//	arksim work   ...                        one worker process (internal)
//	arksim replay <file>                     re-execute a replay file
package main

import (
	"arkverif/gcwin"
	"arkverif/parsim"
	"context"
	"encoding/json"
	"flag"
	"fmt"
	"os"
	"os/exec"
	"path/filepath"
	"runtime"
	"sort"
	"strconv"
	"strings"
	"time"

	"arkverif/sim"
)

// verifDir is the root of the verification tree (VERIF_ROOT, default /verif).
var verifDir = func() string {
	if v := os.Getenv("VERIF_ROOT"); v != "" {
		return v
	}
	return "/verif"
}()

func main() {
	if len(os.Args) < 2 {
		fmt.Fprintln(os.Stderr, "usage: arksim check|work|replay|trace ...")
		os.Exit(2)
	}
	defer func() {
		if r := recover(); r != nil {
			fmt.Fprintf(os.Stderr, "HARNESS-ERROR: %v\n", r)
			os.Exit(2)
		}
	}()
	switch os.Args[1] {
	case "check":
		os.Exit(cmdCheck(os.Args[2:]))
	case "work":
		os.Exit(cmdWork(os.Args[2:]))
	case "replay":
		os.Exit(cmdReplay(os.Args[2:]))
	case "trace":
		os.Exit(cmdTrace(os.Args[2:]))
	case "par":
		os.Exit(cmdPar(os.Args[2:]))
	case "minimise":
		os.Exit(cmdMinimise(os.Args[2:]))
	default:
		fmt.Fprintln(os.Stderr, "unknown subcommand", os.Args[1])
		os.Exit(2)
	}
}

// ---------------------------------------------------------------------------
// worker

// WorkerOut is what a worker process reports.
type WorkerOut struct {
	Worker     int               `json:"worker"`
	Runs       int               `json:"runs"`
	Ops        int               `json:"ops"`
	Skipped    int               `json:"skipped"`
	NonTrivial int               `json:"nontrivial"`
	States     []uint64          `json:"states"`
	OpsByKind  map[string]int    `json:"ops_by_kind"`
	Faults     map[string]int    `json:"faults"`
	Checks     map[string]int    `json:"checks"`
	Probes     map[string]int    `json:"probes"`
	APICalls   map[string]int    `json:"api_calls"`
	SimSecs    int               `json:"sim_secs"`
	Foreign    map[string]int    `json:"foreign"`
	Viol       []sim.Replay      `json:"violations"`
	ViolCount  map[string]int    `json:"viol_count"`
	Samples    []sim.Replay      `json:"samples"`
	Extra      map[string]int    `json:"extra"`
	Sched      []uint64          `json:"sched,omitempty"`
	WallS      float64           `json:"wall_s"`
	Notes      map[string]string `json:"notes,omitempty"`
}

func newWorkerOut(w int) *WorkerOut {
	return &WorkerOut{Worker: w, OpsByKind: map[string]int{}, Faults: map[string]int{}, Checks: map[string]int{}, Probes: map[string]int{},
		APICalls: map[string]int{}, Foreign: map[string]int{}, ViolCount: map[string]int{}, Extra: map[string]int{}}
}

func (o *WorkerOut) absorb(prop string, res *sim.RunResult, mode string, states map[uint64]bool, tier string) {
	o.Runs++
	o.Ops += len(res.Ops)
	if res.C != nil {
		o.Skipped += res.C.Skipped
		for k, v := range res.C.Ops {
			o.OpsByKind[k] += v
		}
		for k, v := range res.C.Faults {
			o.Faults[k] += v
		}
		for k, v := range res.C.Checks {
			o.Checks[k] += v
		}
		for k, v := range res.C.APICalls {
			o.APICalls[k] += v
		}
		for i, n := range sim.ProbeNames {
			o.Probes[n] += res.C.Probes[i]
		}
		o.SimSecs += res.C.SimSecs
	}
	if res.NonTriv {
		o.NonTrivial++
		states[res.State] = true
	}
	for k, v := range res.Foreign(prop) {
		o.Foreign[k] += v
	}
	seen := map[string]bool{}
	for _, v := range res.ViolationsOf(prop) {
		if seen[v.Sig] {
			continue
		}
		seen[v.Sig] = true
		o.ViolCount[v.Sig]++
		if o.ViolCount[v.Sig] <= 2 {
			vv := v
			ops := res.Ops
			if vv.OpIdx+1 < len(ops) {
				ops = ops[:vv.OpIdx+1]
			}
			o.Viol = append(o.Viol, sim.Replay{Property: prop, Engine: "A", Seed: res.Seed, Run: res.Run, Worker: res.Worker, Tier: tier, Mode: mode, Cfg: res.Cfg, Ops: ops, Viol: &vv})
		}
	}
	if len(o.Samples) < 2 && res.NonTriv && len(res.Ops) < 80 {
		o.Samples = append(o.Samples, sim.Replay{Property: prop, Engine: "A", Seed: res.Seed, Run: res.Run, Worker: res.Worker, Tier: tier, Mode: mode, Cfg: res.Cfg, Ops: res.Ops})
	}
}

func cmdWork(args []string) int {
	fs := flag.NewFlagSet("work", flag.ExitOnError)
	prop := fs.String("prop", "C01", "property")
	tier := fs.String("tier", "quick", "tier")
	seed := fs.Uint64("seed", 1, "base seed")
	worker := fs.Int("worker", 0, "worker index")
	budget := fs.Float64("budget", 10, "wall budget in seconds")
	maxRuns := fs.Int("maxruns", 1<<30, "maximum number of runs")
	out := fs.String("out", "", "output file")
	fs.Parse(args)
	start := time.Now()
	if *out != "" {
		progressFile = *out + ".progress"
	}
	o := newWorkerOut(*worker)
	states := map[uint64]bool{}
	if *prop == "C13" {
		workPar(*tier, *seed, *worker, *budget, *maxRuns, o, states)
	} else if isGCWorker(*prop, *worker) {
		workGC(*prop, *tier, *seed, *worker, *budget, *maxRuns, o, states)
	} else if *prop == "C12" || *prop == "C20" {
		workTrace(*prop, *tier, *seed, *worker, *budget, *maxRuns, o, states)
	} else {
		for run := 0; run < *maxRuns; run++ {
			if time.Since(start).Seconds() > *budget {
				break
			}
			runOne(*prop, *tier, *seed, *worker, run, o, states)
		}
	}
	for s := range states {
		o.States = append(o.States, s)
	}
	sort.Slice(o.States, func(i, j int) bool { return o.States[i] < o.States[j] })
	o.WallS = time.Since(start).Seconds()
	b, _ := json.Marshal(o)
	if *out == "" {
		os.Stdout.Write(b)
		return 0
	}
	if err := os.WriteFile(*out, b, 0o644); err != nil {
		fmt.Fprintln(os.Stderr, err)
		return 2
	}
	return 0
}

// progressFile is where a worker notes the run it is about to execute, so that
// a hard crash of the process (Go fatal error, e.g. the GC finding an invalid
// pointer handed out by ark) can be attributed to a run and replayed.
var progressFile string

func noteProgress(prop, engine, tier string, seed uint64, worker, run int, mode string) {
	if progressFile != "" {
		os.WriteFile(progressFile, []byte(fmt.Sprintf(`{"property":%q,"engine":%q,"seed":%d,"run":%d,"worker":%d,"tier":%q,"mode":"regen","cfg":{"profile":%q}}`, prop, engine, seed, run, worker, tier, mode)), 0o644)
	}
}

// runOne executes run number `run` of a worker in the mode(s) of the property.
func runOne(prop, tier string, seed uint64, worker, run int, o *WorkerOut, states map[uint64]bool) {
	mode := sim.ModeFor(prop, run)
	noteProgress(prop, "A", tier, seed, worker, run, mode)
	res := sim.RunMode(prop, tier, seed, worker, run, mode)
	o.absorb(prop, res, mode, states, tier)
}

// ---------------------------------------------------------------------------
// replay

func cmdReplay(args []string) int {
	if len(args) < 1 {
		fmt.Fprintln(os.Stderr, "usage: arksim replay <file>")
		return 2
	}
	b, err := os.ReadFile(args[0])
	if err != nil {
		fmt.Fprintln(os.Stderr, err)
		return 2
	}
	var rp sim.Replay
	if err := json.Unmarshal(b, &rp); err != nil {
		fmt.Fprintln(os.Stderr, err)
		return 2
	}
	if rp.Engine == "B" {
		return replayPar(&rp, args[0])
	}
	if rp.Engine == "G" && (rp.Viol == nil || rp.Viol.Oracle == "gc.window") {
		return replayGC(&rp, args[0])
	}
	if rp.Mode == "regen" {
		return replayRegen(&rp, args[0])
	}
	if os.Getenv("ARKSIM_REPLAY_CHILD") != "1" {
		// The history runs in a child process: on a defective ark it can end in a Go fatal error
		// (corrupted component memory), which is a violation to report, not a harness failure.
		cmd := exec.Command(os.Args[0], "replay", args[0])
		cmd.Env = append(os.Environ(), "ARKSIM_REPLAY_CHILD=1")
		out, err := cmd.CombinedOutput()
		if err != nil && !strings.Contains(string(out), "VIOLATION property=") && strings.Contains(string(out), "fatal error:") {
			i := strings.Index(string(out), "fatal error:")
			fmt.Printf("VIOLATION property=%s replay=%s\n", rp.Property, args[0])
			fmt.Printf("  oracle=no_crash sig=%s/no_crash/fatal\n  executing the history crashed the process: %s\n", rp.Property, clipS(strings.SplitN(string(out)[i:], "\n", 2)[0], 200))
			return 1
		}
		os.Stdout.Write(out)
		if ee, ok := err.(*exec.ExitError); ok {
			return ee.ExitCode()
		}
		if err != nil {
			return 2
		}
		return 0
	}
	viol := execMode(rp.Property, rp.Tier, rp.Mode, rp.Cfg, rp.Ops)
	want := ""
	if rp.Viol != nil {
		want = rp.Viol.Sig
	}
	for _, v := range viol {
		if v.Prop == rp.Property && (want == "" || v.Sig == want) {
			fmt.Printf("VIOLATION property=%s replay=%s\n", rp.Property, args[0])
			fmt.Printf("  oracle=%s sig=%s op=%d\n  %s\n", v.Oracle, v.Sig, v.OpIdx, v.Msg)
			return 1
		}
	}
	fmt.Printf("replay %s: no violation of %s (signature %q) reproduced\n", args[0], rp.Property, want)
	return 0
}

// ---------------------------------------------------------------------------
// check driver

// Finding is an entry of known_findings.json.
type Finding struct {
	Property  string `json:"property"`
	Status    string `json:"status"` // known | fixed
	Signature string `json:"signature"`
	WhatFails string `json:"what_fails"`
	Commit    string `json:"commit,omitempty"`
}

func loadFindings() []Finding {
	if os.Getenv("VERIF_NO_KNOWN") == "1" {
		return nil // maintenance only: produce replay files for known findings
	}
	b, err := os.ReadFile(filepath.Join(verifDir, "known_findings.json"))
	if err != nil {
		return nil
	}
	var f []Finding
	if err := json.Unmarshal(b, &f); err != nil {
		panic("known_findings.json: " + err.Error())
	}
	return f
}

func matchFinding(fs []Finding, prop, sig string) *Finding {
	for i := range fs {
		f := &fs[i]
		if f.Property != prop || f.Status != "known" {
			continue
		}
		if f.Signature == sig {
			return f
		}
		if strings.HasSuffix(f.Signature, "*") && strings.HasPrefix(sig, strings.TrimSuffix(f.Signature, "*")) {
			return f
		}
	}
	return nil
}

type tierCfg struct {
	budget  float64
	workers int
}

func tierOf(prop, tier string) tierCfg {
	w := runtime.NumCPU()
	if w > 16 {
		w = 16
	}
	b := 14.0
	if tier == "thorough" {
		b = 420
	}
	if v := os.Getenv("VERIF_BUDGET"); v != "" {
		if f, err := strconv.ParseFloat(v, 64); err == nil {
			b = f
		}
	}
	if v := os.Getenv("VERIF_WORKERS"); v != "" {
		if n, err := strconv.Atoi(v); err == nil && n > 0 {
			w = n
		}
	}
	return tierCfg{budget: b, workers: w}
}

func cmdCheck(args []string) int {
	fs := flag.NewFlagSet("check", flag.ExitOnError)
	prop := fs.String("prop", "C01", "property")
	tier := fs.String("tier", "quick", "tier")
	seed := fs.Uint64("seed", 1, "base seed (VERIF_SEED)")
	fs.Parse(args)
	if v := os.Getenv("VERIF_SEED"); v != "" {
		if n, err := strconv.ParseUint(v, 10, 64); err == nil {
			*seed = n
		}
	}
	fmt.Printf("VERIF_SEED=%d property=%s tier=%s\n", *seed, *prop, *tier)
	switch *prop {
	case "C13":
		return checkPar(*tier, *seed)
	case "C12", "C20":
		return checkTrace(*prop, *tier, *seed)
	}
	return runWorkers(*prop, *tier, *seed, "A")
}

func runWorkers(propv, tierv string, seedv uint64, engine string) int {
	prop, tier, seed := &propv, &tierv, &seedv
	start := time.Now()
	tc := tierOf(*prop, *tier)
	tmp, err := os.MkdirTemp(filepath.Join(verifDir, "tmp"), "work-")
	if err != nil {
		os.MkdirAll(filepath.Join(verifDir, "tmp"), 0o755)
		tmp, err = os.MkdirTemp(filepath.Join(verifDir, "tmp"), "work-")
		if err != nil {
			fmt.Fprintln(os.Stderr, "HARNESS-ERROR:", err)
			return 2
		}
	}
	defer os.RemoveAll(tmp)
	type wres struct {
		idx int
		err error
		out string
	}
	ch := make(chan wres, tc.workers)
	for i := 0; i < tc.workers; i++ {
		go func(i int) {
			outFile := filepath.Join(tmp, fmt.Sprintf("w%d.json", i))
			ctx, cancel := context.WithTimeout(context.Background(), time.Duration(tc.budget*3+90)*time.Second)
			cmd := exec.CommandContext(ctx, os.Args[0], "work", "-prop", *prop, "-tier", *tier, "-seed", fmt.Sprint(*seed), "-worker", fmt.Sprint(i), "-budget", fmt.Sprint(tc.budget), "-out", outFile)
			cmd.Env = append(os.Environ(), "GOMAXPROCS=2")
			if *prop == "C11" {
				// freed objects are overwritten: a component that refers to freed memory reads garbage
				cmd.Env = append(cmd.Env, "GODEBUG=clobberfree=1")
			}
			if *prop == "C13" {
				cmd.Env = append(cmd.Env, "GORACE=halt_on_error=0 exitcode=0 log_path="+filepath.Join(tmp, fmt.Sprintf("race-w%d", i)))
			}
			// watchdog (via the command's context): a worker that neither finishes nor crashes is
			// stuck inside ark (a lock that is never released, an endless loop); it is killed
			// and the run in progress is reported like a crash
			b, err := cmd.CombinedOutput()
			out := string(b)
			if ctx.Err() == context.DeadlineExceeded {
				out = "WATCHDOG: worker killed after " + fmt.Sprint(int(tc.budget*3+90)) + " s\n" + out
			}
			cancel()
			ch <- wres{i, err, out}
		}(i)
	}
	total := newWorkerOut(-1)
	states := map[uint64]bool{}
	crashed := 0
	// regression corpus: replays of defects that were found and fixed; a fixed
	// entry suppresses nothing, so a returning defect is reported again.
	regs, _ := filepath.Glob(filepath.Join(verifDir, "regress", *prop+"-*.json"))
	sort.Strings(regs)
	for _, rf := range regs {
		outb, _ := exec.Command(os.Args[0], "replay", rf).CombinedOutput()
		total.Extra["regression_replays"]++
		if strings.Contains(string(outb), "VIOLATION property="+*prop) {
			b, err := os.ReadFile(rf)
			var rp sim.Replay
			if err == nil && json.Unmarshal(b, &rp) == nil && rp.Viol != nil {
				rp.Tier = *tier
				total.Viol = append(total.Viol, rp)
				total.ViolCount[rp.Viol.Sig]++
				total.Extra["regression_replays_failed"]++
			}
		}
	}
	for i := 0; i < tc.workers; i++ {
		r := <-ch
		if r.err != nil {
			// a hard crash of the worker process: attribute it to the run in progress
			pb, perr := os.ReadFile(filepath.Join(tmp, fmt.Sprintf("w%d.json.progress", r.idx)))
			var rp sim.Replay
			if perr == nil && json.Unmarshal(pb, &rp) == nil && (strings.Contains(r.out, "fatal error") || strings.HasPrefix(r.out, "WATCHDOG")) {
				what := "fatal error"
				if i := strings.Index(r.out, "fatal error"); i >= 0 {
					what = clipS(strings.SplitN(r.out[i:], "\n", 2)[0], 200)
				}
				rp.Viol = &sim.Violation{Prop: *prop, Oracle: "no_crash", Sig: *prop + "/no_crash/fatal", Fatal: true,
					Msg: "the process crashed while executing a valid seeded history (" + what + "); typically the garbage collector found an invalid pointer handed out or kept by ark"}
				if strings.HasPrefix(r.out, "WATCHDOG") {
					rp.Viol = &sim.Violation{Prop: *prop, Oracle: "no_hang", Sig: *prop + "/no_hang/watchdog", Fatal: true,
						Msg: "the process hung while executing a valid seeded history (killed by the watchdog); typically a world lock or mutex that is never released"}
				}
				total.Viol = append(total.Viol, rp)
				total.ViolCount[rp.Viol.Sig]++
				total.Extra["worker_crashes"]++
				continue
			}
			crashed++
			head := r.out
			if len(head) > 1500 {
				head = head[:1500]
			}
			fmt.Fprintf(os.Stderr, "HARNESS-ERROR: worker %d failed: %v (progress file: %v, %d bytes %q; output %d bytes, fatal error text: %v)\n%s\n...\n%s\n", r.idx, r.err, perr, len(pb), clipS(string(pb), 120), len(r.out), strings.Contains(r.out, "fatal error"), head, tail(r.out, 1500))
			continue
		}
		b, err := os.ReadFile(filepath.Join(tmp, fmt.Sprintf("w%d.json", r.idx)))
		if err != nil {
			crashed++
			continue
		}
		var o WorkerOut
		if err := json.Unmarshal(b, &o); err != nil {
			crashed++
			continue
		}
		merge(total, &o, states)
	}
	if crashed > 0 {
		fmt.Fprintf(os.Stderr, "HARNESS-ERROR: %d worker(s) crashed outside an oracle\n", crashed)
		return 2
	}
	return conclude(*prop, *tier, *seed, total, states, start, engine)
}

func tail(s string, n int) string {
	if len(s) > n {
		return s[len(s)-n:]
	}
	return s
}

func merge(t *WorkerOut, o *WorkerOut, states map[uint64]bool) {
	t.Runs += o.Runs
	t.Ops += o.Ops
	t.Skipped += o.Skipped
	t.NonTrivial += o.NonTrivial
	t.SimSecs += o.SimSecs
	for _, s := range o.States {
		states[s] = true
	}
	add := func(dst, src map[string]int) {
		for k, v := range src {
			dst[k] += v
		}
	}
	add(t.OpsByKind, o.OpsByKind)
	add(t.Faults, o.Faults)
	add(t.Checks, o.Checks)
	add(t.Probes, o.Probes)
	add(t.APICalls, o.APICalls)
	add(t.Foreign, o.Foreign)
	add(t.ViolCount, o.ViolCount)
	add(t.Extra, o.Extra)
	t.Sched = append(t.Sched, o.Sched...)
	t.Viol = append(t.Viol, o.Viol...)
	if len(t.Samples) < 3 {
		t.Samples = append(t.Samples, o.Samples...)
	}
	if o.WallS > t.WallS {
		t.WallS = o.WallS
	}
}

// conclude minimises and replays violations, applies known findings, writes evidence.
func conclude(prop, tier string, seed uint64, total *WorkerOut, states map[uint64]bool, start time.Time, engine string) int {
	findings := loadFindings()
	// one representative per signature: the shortest history
	bySig := map[string]*sim.Replay{}
	for i := range total.Viol {
		v := &total.Viol[i]
		if cur, ok := bySig[v.Viol.Sig]; !ok || len(v.Ops) < len(cur.Ops) {
			bySig[v.Viol.Sig] = v
		}
	}
	var sigs []string
	for s := range bySig {
		sigs = append(sigs, s)
	}
	sort.Strings(sigs)
	exit := 0
	known := 0
	unlisted := 0
	notRepro := 0
	reported := 0
	var lines []string
	os.MkdirAll(filepath.Join(verifDir, "replays"), 0o755)
	for _, sig := range sigs {
		rp := bySig[sig]
		if f := matchFinding(findings, prop, sig); f != nil {
			known++
			lines = append(lines, fmt.Sprintf("KNOWN-FINDING: property=%s %s [signature %s, seen in %d runs]", prop, f.WhatFails, sig, total.ViolCount[sig]))
			continue
		}
		unlisted++
		if unlisted > 4 {
			lines = append(lines, fmt.Sprintf("(further unlisted signature %s seen in %d runs; not minimised)", sig, total.ViolCount[sig]))
			continue
		}
		// minimise
		if rp.Engine == "B" {
			minimisePar(rp, sig)
		} else if rp.Mode == "regen" {
			// a crash is replayed by regenerating the run from its seed
		} else {
			// The history is minimised in a child process: executing it on a defective ark can
			// end in a Go fatal error (corrupted component memory), which must not take the
			// driver down. If the child fails, the history is reported as it was found.
			before := len(rp.Ops)
			tmpf := filepath.Join(verifDir, "tmp", fmt.Sprintf("min-%d-%s.json", os.Getpid(), sanitize(sig)))
			if b, err := json.Marshal(rp); err == nil && os.WriteFile(tmpf, b, 0o644) == nil {
				ctx, cancel := context.WithTimeout(context.Background(), 180*time.Second)
				cmd := exec.CommandContext(ctx, os.Args[0], "minimise", tmpf)
				if _, err := cmd.CombinedOutput(); err == nil {
					var m sim.Replay
					if mb, err := os.ReadFile(tmpf); err == nil && json.Unmarshal(mb, &m) == nil && m.Viol != nil && len(m.Ops) > 0 {
						rp.Ops, rp.Viol = m.Ops, m.Viol
					}
				} else {
					lines = append(lines, fmt.Sprintf("(minimisation of %s ended abnormally: %v; the history is reported unminimised)", sig, err))
				}
				cancel()
				os.Remove(tmpf)
			}
			fmt.Printf("minimised %s: %d -> %d ops\n", sig, before, len(rp.Ops))
		}
		name := fmt.Sprintf("%s-%d-w%d-r%d-%s.json", prop, seed, rp.Worker, rp.Run, sanitize(sig))
		path := filepath.Join(verifDir, "replays", name)
		b, _ := json.MarshalIndent(rp, "", " ")
		if err := os.WriteFile(path, b, 0o644); err != nil {
			fmt.Fprintln(os.Stderr, "HARNESS-ERROR:", err)
			return 2
		}
		// verify the replay in a fresh process
		reproduced := false
		var outb []byte
		attempts := 1
		if prop == "C12" || rp.Mode == "regen" {
			attempts = 3 // decided by replication under uncontrolled runtime randomness (map order, GC timing)
		}
		for a := 0; a < attempts && !reproduced; a++ {
			cmd := exec.Command(os.Args[0], "replay", path)
			var err error
			outb, err = cmd.CombinedOutput()
			reproduced = err != nil && strings.Contains(string(outb), "VIOLATION property="+prop)
		}
		if !reproduced {
			notRepro++
			lines = append(lines, fmt.Sprintf("NOT-REPRODUCED: signature %s (replay %s) did not reproduce in a fresh process; not reported", sig, path))
			fmt.Fprintf(os.Stderr, "replay output: %s\n", tail(string(outb), 1500))
			unlisted--
			continue
		}
		reported++
		lines = append(lines, fmt.Sprintf("VIOLATION property=%s replay=%s", prop, path))
		lines = append(lines, fmt.Sprintf("  signature=%s runs=%d op=%d: %s", sig, total.ViolCount[sig], rp.Viol.OpIdx, rp.Viol.Msg))
		exit = 1
	}
	if notRepro > 0 && reported == 0 && (prop != "C12" || notRepro > 2) {
		// violations were seen but none replays: a harness defect, never dressed up as a verdict
		exit = 2
		lines = append(lines, "HARNESS-ERROR: violations were observed but none reproduced on replay")
	}
	wall := time.Since(start).Seconds()
	writeEvidence(prop, tier, seed, total, states, wall, engine, unlisted, known)
	for _, l := range lines {
		fmt.Println(l)
	}
	fmt.Printf("property=%s tier=%s runs=%d ops=%d nontrivial=%d distinct_states=%d known=%d unlisted=%d wall=%.1fs\n", prop, tier, total.Runs, total.Ops, total.NonTrivial, len(states), known, unlisted, wall)
	return exit
}

func sanitize(s string) string {
	var b strings.Builder
	for _, c := range s {
		switch {
		case c >= 'a' && c <= 'z', c >= 'A' && c <= 'Z', c >= '0' && c <= '9', c == '.', c == '-':
			b.WriteRune(c)
		default:
			b.WriteByte('_')
		}
	}
	out := b.String()
	if len(out) > 80 {
		out = out[:80]
	}
	return out
}

func writeEvidence(prop, tier string, seed uint64, t *WorkerOut, states map[uint64]bool, wall float64, engine string, unlisted, known int) {
	level := sim.LevelOf(prop)
	var samples []any
	for i := range t.Samples {
		if i >= 3 {
			break
		}
		s := &t.Samples[i]
		if s.Par != nil {
			var segs []any
			for _, sg := range s.Par.Segments {
				e := map[string]any{"world_ops": sim.Describe(sg.Ops, 25)}
				if sg.Round != nil {
					e["round"] = map[string]any{"filters": sg.Round.Filters, "goroutine_scripts": sg.Round.Scripts, "scheduler_seed": sg.Round.Seed, "schedule_length": len(sg.Round.Schedule)}
				}
				segs = append(segs, e)
			}
			samples = append(samples, map[string]any{"seed": s.Seed, "worker": s.Worker, "run": s.Run, "cfg": s.Cfg, "segments": segs})
			continue
		}
		samples = append(samples, map[string]any{"seed": s.Seed, "worker": s.Worker, "run": s.Run, "mode": s.Mode, "cfg": s.Cfg, "ops": sim.Describe(s.Ops, 60)})
	}
	if len(samples) == 0 {
		samples = append(samples, "no non-trivial run short enough to print was produced in this invocation")
	}
	warn := []string{}
	for _, n := range sim.ProbesFor(prop) {
		if t.Probes[n] == 0 {
			warn = append(warn, "probe "+n+" was never hit")
		}
	}
	cov := map[string]any{
		"evaluations":                         t.Runs,
		"distinct_nontrivial":                 len(states),
		"nontrivial_runs":                     t.NonTrivial,
		"rule":                                sim.RuleOf(prop),
		"samples":                             samples,
		"ops_executed":                        t.Ops,
		"ops_skipped_by_normalisation":        t.Skipped,
		"ops_by_kind":                         t.OpsByKind,
		"faults_fired":                        t.Faults,
		"oracle_evaluations":                  t.Checks,
		"probes":                              t.Probes,
		"api_calls":                           t.APICalls,
		"simulated_seconds":                   t.SimSecs,
		"runs_per_hour":                       int(float64(t.Runs) / wall * 3600),
		"violations_of_other_properties_seen": t.Foreign,
		"known_findings_seen":                 known,
		"extra":                               t.Extra,
		"warnings":                            warn,
		"engine":                              engineLabel(prop, engine),
		"real_code":                           "all of package github.com/mlange-42/ark/ecs, built from /repo's working tree with -tags verif",
		"stubs":                               "none; seams: Shrink clock-skew hook, lock yield hooks, reach probes",
		"toolchain":                           runtime.Version(),
	}
	if engine == "B" {
		seen := map[uint64]bool{}
		for _, h := range t.Sched {
			seen[h] = true
		}
		cov["distinct_schedules"] = len(seen)
	}
	if level == "fault_enumeration" {
		cov["exhaustive"] = false
		cov["matrix_cells"] = t.Faults["matrix_cells"]
	}
	ev := map[string]any{
		"property_id": prop,
		"tier":        tier,
		"seed":        seed,
		"level":       level,
		"coverage":    cov,
		"assumptions": sim.AssumptionsOf(prop),
		"wall_s":      wall,
		"violations":  unlisted,
	}
	evDir := filepath.Join(verifDir, "evidence")
	if v := os.Getenv("VERIF_EVIDENCE"); v != "" {
		evDir = v // runs against seeded changes must not overwrite the evidence of the real tree
	}
	os.MkdirAll(evDir, 0o755)
	b, _ := json.MarshalIndent(ev, "", " ")
	os.WriteFile(filepath.Join(evDir, prop+".json"), b, 0o644)
}

func execMode(prop, tier, mode string, cfg sim.Config, ops []sim.Op) []sim.Violation {
	if mode == "trace" {
		return execTraceMode(prop, cfg, ops)
	}
	return sim.ExecMode(prop, tier, mode, cfg, ops)
}

// replayRegen re-generates a run from its seed in child processes (with an
// aggressive GC setting) and reports whether the process crashes again.
func replayRegen(rp *sim.Replay, path string) int {
	if os.Getenv("ARKSIM_REGEN_CHILD") == "1" {
		mode := rp.Cfg.Profile
		switch rp.Engine {
		case "B":
			parsim.RunSession(rp.Seed, rp.Tier, rp.Worker, rp.Run, raceLogPath(), nil)
		case "G":
			gcwin.Run(rp.Seed, rp.Worker, rp.Run)
		case "C":
			o := newWorkerOut(rp.Worker)
			workTraceRuns(rp.Property, rp.Tier, rp.Seed, rp.Worker, rp.Run/16*16, rp.Run/16*16+16, o, map[uint64]bool{})
		default:
			sim.RunMode(rp.Property, rp.Tier, rp.Seed, rp.Worker, rp.Run, mode)
		}
		return 0
	}
	limit := 60 * time.Second
	if rp.Tier == "thorough" {
		limit = 240 * time.Second
	}
	for _, gogc := range []string{"1", "5", "default"} {
		ctx, cancel := context.WithTimeout(context.Background(), limit)
		cmd := exec.CommandContext(ctx, os.Args[0], "replay", path)
		cmd.Env = append(os.Environ(), "ARKSIM_REGEN_CHILD=1")
		if gogc != "default" {
			cmd.Env = append(cmd.Env, "GOGC="+gogc)
		}
		if rp.Engine == "B" {
			cmd.Env = append(cmd.Env, "GORACE=halt_on_error=0 exitcode=0 log_path="+filepath.Join(verifDir, "tmp", "race-regen"))
		}
		out, err := cmd.CombinedOutput()
		hung := ctx.Err() == context.DeadlineExceeded
		cancel()
		if hung {
			fmt.Printf("VIOLATION property=%s replay=%s\n", rp.Property, path)
			fmt.Printf("  oracle=no_hang sig=%s\n  regenerated run (seed %d worker %d run %d) did not finish within %v and was killed\n", rp.Viol.Sig, rp.Seed, rp.Worker, rp.Run, limit)
			return 1
		}
		if err != nil && strings.Contains(string(out), "fatal error") {
			i := strings.Index(string(out), "fatal error")
			fmt.Printf("VIOLATION property=%s replay=%s\n", rp.Property, path)
			fmt.Printf("  oracle=no_crash sig=%s\n  regenerated run (seed %d worker %d run %d) crashed the process: %s\n", rp.Viol.Sig, rp.Seed, rp.Worker, rp.Run, clipS(strings.SplitN(string(out)[i:], "\n", 2)[0], 200))
			return 1
		}
	}
	fmt.Printf("replay %s: the regenerated run neither crashed nor hung again\n", path)
	return 0
}

func engineLabel(prop, engine string) string {
	if prop == "C11" {
		return engine + " (world simulator, workers 0-2 of 4) + G (operations inside the mark phase of a collection, worker 3 of 4; evaluations of G: oracle_evaluations[gc.window])"
	}
	return engine
}

// cmdMinimise minimises the history of a replay file in place (see conclude).
func cmdMinimise(args []string) int {
	if len(args) < 1 {
		return 2
	}
	b, err := os.ReadFile(args[0])
	if err != nil {
		return 2
	}
	var rp sim.Replay
	if err := json.Unmarshal(b, &rp); err != nil || rp.Viol == nil {
		return 2
	}
	sig := rp.Viol.Sig
	rp.Ops = sim.Minimise(rp.Ops, sig, 400, func(ops []sim.Op) []sim.Violation {
		return execMode(rp.Property, rp.Tier, rp.Mode, rp.Cfg, ops)
	})
	// refresh the violation record from the minimised history
	for _, v := range execMode(rp.Property, rp.Tier, rp.Mode, rp.Cfg, rp.Ops) {
		if v.Sig == sig {
			vv := v
			rp.Viol = &vv
			break
		}
	}
	out, _ := json.Marshal(&rp)
	if err := os.WriteFile(args[0], out, 0o644); err != nil {
		return 2
	}
	return 0
}
