package main

import (
	"encoding/json"
	"fmt"
	"os"
	"os/exec"
	"path/filepath"
	"sort"
	"strings"
	"time"

	"arkverif/parsim"
	"arkverif/sim"
)

// Engine B driver parts (C13). Must run from the -race binary.

func raceLogPath() string {
	g := os.Getenv("GORACE")
	for _, f := range strings.Fields(g) {
		if strings.HasPrefix(f, "log_path=") {
			return strings.TrimPrefix(f, "log_path=") + "." + fmt.Sprint(os.Getpid())
		}
	}
	return ""
}

func ensureGorace(tag string) {
	if os.Getenv("GORACE") != "" {
		return
	}
	os.MkdirAll(filepath.Join(verifDir, "tmp"), 0o755)
	cmd := exec.Command(os.Args[0], os.Args[1:]...)
	cmd.Env = append(os.Environ(), "GORACE=halt_on_error=0 exitcode=0 log_path="+filepath.Join(verifDir, "tmp", "race-"+tag))
	cmd.Stdout, cmd.Stderr = os.Stdout, os.Stderr
	err := cmd.Run()
	if ee, ok := err.(*exec.ExitError); ok {
		os.Exit(ee.ExitCode())
	}
	if err != nil {
		fmt.Fprintln(os.Stderr, "HARNESS-ERROR:", err)
		os.Exit(2)
	}
	os.Exit(0)
}

func workPar(tier string, seed uint64, worker int, budget float64, maxRuns int, o *WorkerOut, states map[uint64]bool) {
	start := time.Now()
	log := raceLogPath()
	if log == "" {
		panic("C13 worker needs GORACE log_path")
	}
	defer os.Remove(log)
	sched := map[uint64]bool{}
	for run := 0; run < maxRuns; run++ {
		if time.Since(start).Seconds() > budget {
			break
		}
		noteProgress("C13", "B", tier, seed, worker, run, "")
		res := parsim.RunSession(seed, tier, worker, run, log, sched)
		o.Runs++
		o.Ops += res.Ops
		o.Extra["rounds"] += res.Rounds
		o.Extra["goroutines"] += res.Stats.Tasks
		o.Extra["scheduler_steps"] += res.Stats.Steps
		o.Extra["context_switches"] += res.Stats.Switches
		o.Extra["preemptions_inside_locksafe"] += res.Stats.InLock
		o.Extra["preemptions_inside_hint_refresh"] += res.Stats.SharedSwitch
		o.Extra["queries_rejected_at_the_limit_of_64"] += res.Stats.Rejected
		o.Extra["queries_rejected_for_a_removed_relation_target"] += res.Stats.DeadTarget
		o.Extra["trylock_waits"] += res.Stats.TryFails
		o.Extra["queries_run"] += res.Stats.Queries
		o.Extra["shared_filter_first_use"] += res.Stats.SharedFirstUse
		o.Faults["stalls"] += res.Stats.Stalls
		for k, v := range res.Foreign {
			o.Foreign[k] += v
		}
		if res.Stats.InLock > 0 && res.Stats.SharedFirstUse > 0 {
			o.NonTrivial++
			states[res.State] = true
		}
		seen := map[string]bool{}
		for _, v := range res.Viol {
			if seen[v.Sig] {
				continue
			}
			seen[v.Sig] = true
			o.ViolCount[v.Sig]++
			if o.ViolCount[v.Sig] <= 2 {
				vv := v
				par := res.Par
				o.Viol = append(o.Viol, sim.Replay{Property: "C13", Engine: "B", Build: "race", Seed: seed, Run: run, Worker: worker, Tier: tier, Cfg: res.Cfg, Par: &par, Viol: &vv})
			}
		}
		if len(o.Samples) < 1 && res.Rounds > 0 && res.Ops < 60 {
			par := res.Par
			o.Samples = append(o.Samples, sim.Replay{Property: "C13", Engine: "B", Seed: seed, Run: run, Worker: worker, Tier: tier, Cfg: res.Cfg, Par: &par})
		}
		if res.Dead {
			break // parked goroutines of the deadlocked round are still around
		}
	}
	o.Extra["distinct_schedules"] = len(sched)
	for h := range sched {
		o.Sched = append(o.Sched, h)
	}
	sort.Slice(o.Sched, func(i, j int) bool { return o.Sched[i] < o.Sched[j] })
}

func checkPar(tier string, seed uint64) int {
	return runWorkers("C13", tier, seed, "B")
}

// replayPar re-executes an engine-B replay file in this (race-enabled) process.
func replayPar(rp *sim.Replay, path string) int {
	ensureGorace("replay")
	log := raceLogPath()
	defer os.Remove(log)
	want := ""
	if rp.Viol != nil {
		want = rp.Viol.Sig
	}
	// first with the recorded schedule, then (races can be missed by the detector on a
	// given run) with fresh schedules
	for attempt := 0; attempt < 6; attempt++ {
		viol := parsim.Replay(rp.Cfg, rp.Par, rp.Tier, log, attempt > 0)
		for _, v := range viol {
			if want == "" || v.Sig == want {
				fmt.Printf("VIOLATION property=%s replay=%s\n", rp.Property, path)
				fmt.Printf("  oracle=%s sig=%s attempt=%d\n  %s\n", v.Oracle, v.Sig, attempt, v.Msg)
				return 1
			}
		}
		if strings.Contains(want, "par.progress") {
			break
		}
	}
	fmt.Printf("replay %s: no violation of %s (signature %q) reproduced\n", path, rp.Property, want)
	return 0
}

// minimisePar shrinks an engine-B replay: fewer goroutines, in fresh processes.
func minimisePar(rp *sim.Replay, sig string) {
	tmp := filepath.Join(verifDir, "tmp", fmt.Sprintf("min-%d.json", os.Getpid()))
	defer os.Remove(tmp)
	reproduces := func(c *sim.Replay) bool {
		b, _ := json.Marshal(c)
		os.WriteFile(tmp, b, 0o644)
		out, _ := exec.Command(os.Args[0], "replay", tmp).CombinedOutput()
		return strings.Contains(string(out), "VIOLATION property=C13") && strings.Contains(string(out), "sig="+sig)
	}
	segs := rp.Par.Segments
	last := -1
	for i := range segs {
		if segs[i].Round != nil {
			last = i
		}
	}
	if last < 0 {
		return
	}
	budget := 40
	for budget > 0 {
		rd := segs[last].Round
		if len(rd.Scripts) <= 2 {
			break
		}
		reduced := false
		for drop := len(rd.Scripts) - 1; drop >= 0 && budget > 0; drop-- {
			budget--
			c := *rp
			par := *rp.Par
			par.Segments = append([]sim.ParSegment{}, segs...)
			nr := *rd
			nr.Scripts = append(append([][]sim.ParStep{}, rd.Scripts[:drop]...), rd.Scripts[drop+1:]...)
			nr.Schedule = nil
			par.Segments[last].Round = &nr
			c.Par = &par
			if reproduces(&c) {
				segs = par.Segments
				rp.Par = &par
				reduced = true
				break
			}
		}
		if !reduced {
			break
		}
	}
}
