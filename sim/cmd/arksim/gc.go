package main

import (
	"fmt"
	"hash/fnv"
	"time"

	"arkverif/gcwin"
	"arkverif/sim"
)

// Engine G (C11): single ark operations placed inside the concurrent mark phase of a
// garbage collection (package gcwin). One worker in four of the C11 check runs it.

func isGCWorker(prop string, worker int) bool { return prop == "C11" && worker%4 == 3 }

func gcReplay(prop, tier string, o gcwin.Outcome) sim.Replay {
	t := o.Trial
	return sim.Replay{Property: prop, Engine: "G", Seed: t.Seed, Run: t.Run, Worker: t.Worker, Tier: tier, Mode: "regen",
		Cfg:  sim.Config{Profile: fmt.Sprintf("gc.window kind=%s op=%s extra=%d div=%d rollback=%v capacity=%d", t.Kind, t.Op, t.Extra, t.Div, t.Rollback, t.Capacity)},
		Viol: &sim.Violation{Prop: prop, Oracle: "gc.window", Sig: o.Sig, Msg: fmt.Sprintf("%s [payload kind %s, operation %s inside the mark phase, %d other rows, world capacity %d, rollback prelude %v]", o.Viol, t.Kind, t.Op, t.Extra, t.Capacity, t.Rollback)}}
}

func workGC(prop, tier string, seed uint64, worker int, budget float64, maxRuns int, o *WorkerOut, states map[uint64]bool) {
	start := time.Now()
	gcwin.Prepare()
	for run := 0; run < maxRuns; run++ {
		if time.Since(start).Seconds() > budget {
			break
		}
		noteProgress(prop, "G", tier, seed, worker, run, "")
		out := gcwin.Run(seed, worker, run)
		o.Runs++
		o.Ops++
		o.OpsByKind["G:"+out.Trial.Op]++
		o.Checks["gc.window"]++
		o.Faults["gc_trials_"+out.Trial.Kind]++
		if out.Trial.Rollback {
			o.Faults["gc_rollback_prelude"]++
		}
		if out.Hit {
			o.Faults["gc_mark_in_flight"]++
			o.NonTrivial++
			h := fnv.New64a()
			h.Write([]byte(fmt.Sprint(out.Trial.Kind, out.Trial.Op, out.Trial.Extra, out.Trial.Capacity, out.Trial.Rollback)))
			states[h.Sum64()] = true
		}
		o.Extra["gc_cycle_us"] = int(out.CycleMs * 1000)
		if out.Viol != "" {
			o.ViolCount[out.Sig]++
			if o.ViolCount[out.Sig] <= 1 {
				o.Viol = append(o.Viol, gcReplay(prop, tier, out))
			}
		}
	}
}

// replayGC re-runs the trial of a replay file. The timing of the collector is not under
// control, so the trial is repeated; a trial that fails once shows a real use-after-free.
func replayGC(rp *sim.Replay, path string) int {
	want := ""
	if rp.Viol != nil {
		want = rp.Viol.Sig
	}
	for a := 0; a < 8; a++ {
		out := gcwin.Run(rp.Seed, rp.Worker, rp.Run)
		if out.Viol != "" {
			fmt.Printf("VIOLATION property=%s replay=%s\n", rp.Property, path)
			fmt.Printf("  oracle=gc.window sig=%s attempt=%d\n  %s\n", out.Sig, a+1, out.Viol)
			return 1
		}
	}
	fmt.Printf("replay %s: no violation of %s (signature %q) reproduced in 8 attempts\n", path, rp.Property, want)
	return 0
}
