package main

import (
	"fmt"

	"arkverif/sim"
)

func cmdPar(args []string) int                  { fmt.Println("not built yet"); return 2 }
func replayPar(rp *sim.Replay, path string) int { fmt.Println("not built yet"); return 2 }
func checkPar(tier string, seed uint64) int     { fmt.Println("not built yet"); return 2 }
