package main

func cmdPar(args []string) int { return 2 }
