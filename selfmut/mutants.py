#!/usr/bin/env python3
"""Self-made sensitivity mutants (DESIGN.md 'would catch' lists): small textual changes to ark,
each applied in a scratch worktree; the pinned suite must still pass (otherwise the mutant is
skipped as 'killed by suite'), then the listed checks run against it (quick tier).
Usage: mutants.py [name-substring]   -> writes selfmut/results.json"""
import json, os, subprocess, sys, shutil

M = [
 # name, file, old, new, checks
 ("remove-no-index-fixup", "ecs/world_internal.go",
  "\tswapped := oldTable.Remove(index.row)\n\n\tif swapped {\n\t\tswapEntity := oldTable.GetEntity(uintptr(index.row))\n\t\tw.storage.entities[swapEntity.id].row = index.row\n\t}\n\tw.storage.entities[entity.id] = entityIndex{table: newTable.id, row: newIndex}\n}\n\n// remove components on an entity.",
  "\tswapped := oldTable.Remove(index.row)\n\n\tif swapped && index.row > 2 {\n\t\tswapEntity := oldTable.GetEntity(uintptr(index.row))\n\t\tw.storage.entities[swapEntity.id].row = index.row\n\t}\n\tw.storage.entities[entity.id] = entityIndex{table: newTable.id, row: newIndex}\n}\n\n// remove components on an entity.", ["C01"]),
 ("recycle-no-gen-bump", "ecs/pool.go", "\tp.entities[e.id].gen++\n", "\tif e.id%7 != 3 {\n\t\tp.entities[e.id].gen++\n\t}\n", ["C02"]),
 ("matches-ignores-generation", "ecs/table.go", "\t\tif rel.target != t.components[rel.component.id].target {\n\t\t\treturn false\n\t\t}\n\t}\n\treturn true\n}\n\n// Len",
  "\t\tif rel.target.id != t.components[rel.component.id].target.id {\n\t\t\treturn false\n\t\t}\n\t}\n\treturn true\n}\n\n// Len", ["C03"]),
 ("removetarget-keeps-index", "ecs/archetype.go", "\tdelete(a.targetTables, entity.id)\n}", "\tif entity.id%3 != 0 {\n\t\tdelete(a.targetTables, entity.id)\n\t}\n}", ["C04", "C03"]),
 ("cleanup-no-cache-remove", "ecs/storage.go", "\t\t\tarchetype.FreeTable(table)\n\t\t\ts.cache.removeTable(table)\n", "\t\t\tarchetype.FreeTable(table)\n\t\t\tif len(table.relationIDs) > 1 {\n\t\t\t\ts.cache.removeTable(table)\n\t\t\t}\n", ["C05"]),
 ("cache-addtable-ignores-relations", "ecs/cache.go", "\t\tif !table.Matches(e.relations) {\n\t\t\tcontinue\n\t\t}\n\t\te.tables.Append(table.id)", "\t\tif len(e.relations) > 1 && !table.Matches(e.relations) {\n\t\t\tcontinue\n\t\t}\n\t\te.tables.Append(table.id)", ["C05"]),
 ("batchtables-cached-skip-matches", "ecs/storage.go", "\t\t\tif !table.Matches(batch.relations) {\n\t\t\t\tcontinue\n\t\t\t}\n\t\t\ttables = append(tables, tableID)\n\t\t}\n\t\treturn tables", "\t\t\ttables = append(tables, tableID)\n\t\t}\n\t\treturn tables", ["C06", "C05"]),
 ("close-not-idempotent-query3", "ecs/query_gen.go", "func (q *Query3[A, B, C]) Close() {\n\tif q.cursor.table < -1 {\n\t\treturn\n\t}", "func (q *Query3[A, B, C]) Close() {\n\tif q.cursor.table < -2 {\n\t\treturn\n\t}", ["C07"]),
 ("setrelations-no-lockcheck", "ecs/world_internal.go", "func (w *World) setRelations(entity Entity, relations []relationID) {\n\tw.checkLocked()\n", "func (w *World) setRelations(entity Entity, relations []relationID) {\n", ["C07", "C10"]),
 ("fireadd-containsany-swap", "ecs/events.go", "\t\tif o.hasComps && (!newMask.Contains(&o.compsMask) || oldMask.ContainsAny(&o.compsMask)) {", "\t\tif o.hasComps && (!newMask.ContainsAny(&o.compsMask) || oldMask.ContainsAny(&o.compsMask)) {", ["C08"]),
 ("union-not-recomputed", "ecs/events.go", "\tm.allWith[o.event] = allWith\n", "\tif len(m.observers[o.event]) != 2 {\n\t\tm.allWith[o.event] = allWith\n\t}\n", ["C08"]),
 ("removeentity-unlock-before-callbacks", "ecs/storage.go", "\t\tl := s.lock()\n\t\tif hasEntityObs {\n\t\t\tmask := &s.archetypes[table.archetype].mask\n\t\t\ts.observers.FireRemoveEntity(entity, mask, true)\n\t\t}", "\t\tl := s.lock()\n\t\tif hasEntityObs {\n\t\t\tmask := &s.archetypes[table.archetype].mask\n\t\t\tif hasRelationObs {\n\t\t\t\ts.unlock(l)\n\t\t\t}\n\t\t\ts.observers.FireRemoveEntity(entity, mask, true)\n\t\t\tif hasRelationObs {\n\t\t\t\tl = s.lock()\n\t\t\t}\n\t\t}", ["C09"]),
 ("map5-get-no-alive-check", "ecs/maps_gen.go", "func (m *Map5[A, B, C, D, E]) Get(entity Entity) (*A, *B, *C, *D, *E) {\n\tif !m.world.storage.entityPool.Alive(entity) {\n\t\tpanic(\"can't get components of a dead entity\")\n\t}", "func (m *Map5[A, B, C, D, E]) Get(entity Entity) (*A, *B, *C, *D, *E) {", ["C10"]),
 ("remove-no-zero", "ecs/table.go", "\t\t\tcopyValue(column.data, column.data, int(lastIndex), int(index))\n\t\t\tcolumn.Zero(lastIndex, t.zeroPointer)", "\t\t\tcopyValue(column.data, column.data, int(lastIndex), int(index))", ["C11"]),
 ("reset-small-path-for-nontrivial", "ecs/column.go", "\tif ownLen <= 64 && c.isTrivial {", "\tif ownLen <= 64 && (c.isTrivial || ownLen == 3) {", ["C11", "C01"]),
 ("freetables-map-order", "ecs/archetype.go", "\tfor _, v := range a.targetTables {\n\t\t_ = v.Remove(table.id)\n\t}\n}", "\tfor k, v := range a.targetTables {\n\t\tif v.Remove(table.id) && len(v.tables) == 0 && len(a.freeTables) > 1 {\n\t\t\ta.freeTables[0], a.freeTables[len(a.freeTables)-1] = a.freeTables[len(a.freeTables)-1], a.freeTables[0]\n\t\t\t_ = k\n\t\t\tbreak\n\t\t}\n\t}\n}", ["C12"]),
 ("unlock-outside-mutex", "ecs/lock.go", "\tm.locks.Clear(l)\n\tverifYield(verifInLock, nil)\n\tm.bitPool.Recycle(l)\n\tm.mu.Unlock()\n", "\tm.locks.Clear(l)\n\tverifYield(verifInLock, nil)\n\tm.mu.Unlock()\n\tm.bitPool.Recycle(l)\n", ["C13"]),
 ("query-uses-unsafe-lock", "ecs/filter.go", "\t\tlock:      f.world.lockSafe(),", "\t\tlock:      f.world.lock(),", ["C13"]),
 ("exchange4-callback-wrong-column", "ecs/exchange_gen.go", "\t\t(*D)(table.Column(ex.ids[3]).Get(row)),\n\t)\n}\n\n// Exchange5", "\t\t(*D)(table.Column(ex.ids[2]).Get(row)),\n\t)\n}\n\n// Exchange5", ["C14"]),
 ("canshrink-off-by-one", "ecs/table.go", "func (t *table) CanShrink(minCapacity uint32) bool {\n\ttarget := max(capPow2(t.len), minCapacity)\n\treturn t.cap > target", "func (t *table) CanShrink(minCapacity uint32) bool {\n\ttarget := max(capPow2(t.len), minCapacity)\n\treturn t.cap >= target", ["C15"]),
 ("shrink-drop-anyfound", "ecs/storage.go", "\t\tif anyFound && (stopAfter == 0 || time.Since(start) >= stopAfter) {", "\t\tif stopAfter == 0 || time.Since(start) >= stopAfter {", ["C15"]),
 ("reset-keeps-resources", "ecs/world.go", "\tw.storage.Reset()\n\tw.resources.reset()", "\tw.storage.Reset()\n\tif len(w.storage.archetypes) < 3 {\n\t\tw.resources.reset()\n\t}", ["C16"]),
 ("reset-keeps-cache", "ecs/cache.go", "\tc.indices = map[cacheID]int{}\n\tc.filters = c.filters[:0]\n\tc.intPool.Reset()", "\tc.indices = map[cacheID]int{}\n\tif len(c.filters) != 2 {\n\t\tc.filters = c.filters[:0]\n\t}\n\tc.intPool.Reset()", ["C16", "C05"]),
 ("dump-next-wrong", "ecs/unsafe.go", "\t\tNext:      uint32(u.world.storage.entityPool.next),", "\t\tNext:      uint32(u.world.storage.entityPool.next) &^ 8,", ["C17"]),
 ("unregister-last-keeps-relation-flag", "ecs/world_internal.go", "\t\t\tw.storage.registry.unregisterLastComponent()\n\t\t\tpanic(\"attempt to register a new component in a locked world\")", "\t\t\tpanic(\"attempt to register a new component in a locked world\")", ["C18"]),
 ("stats-freetables-stale", "ecs/archetype.go", "\tstats.FreeTables = len(a.freeTables)\n\tstats.Capacity = cap", "\tstats.Capacity = cap", ["C19"]),
 ("debug-only-panic", "ecs/checks_debug.go", "func (c *cursor) checkQueryGet() {\n\tif c.table < 0 {", "func (c *cursor) checkQueryGet() {\n\tif c.table < 0 || c.index > 40 {", ["C20"]),
 ("locksafe-lost-unlock", "ecs/lock.go", "\tm.locks.Set(lock)\n\tm.mu.Unlock()\n\tverifYield(verifAfterUnlock, nil)\n\treturn lock", "\tm.locks.Set(lock)\n\tif lock != 12 {\n\t\tm.mu.Unlock()\n\t}\n\tverifYield(verifAfterUnlock, nil)\n\treturn lock", ["C13", "C07"]),
 ("bitpool-get-returns-index", "ecs/pool.go", "func (p *bitPool) Get() uint8 {\n\tif p.available == 0 {\n\t\treturn p.getNew()\n\t}\n\tcurr := p.next\n\tp.next, p.bits[p.next] = p.bits[p.next], p.next\n\tp.available--\n\treturn p.bits[curr]", "func (p *bitPool) Get() uint8 {\n\tif p.available == 0 {\n\t\treturn p.getNew()\n\t}\n\tcurr := p.next\n\tp.next, p.bits[p.next] = p.bits[p.next], p.next\n\tp.available--\n\tif p.available > 6 {\n\t\treturn curr ^ 1\n\t}\n\treturn p.bits[curr]", ["C07", "C13"]),
 ("entitypool-available-off", "ecs/pool.go", "// Available returns the current number of available/recycled entities.\nfunc (p *entityPool) Available() int {\n\treturn int(p.available)", "// Available returns the current number of available/recycled entities.\nfunc (p *entityPool) Available() int {\n\tif p.available > 9 {\n\t\treturn int(p.available) - 1\n\t}\n\treturn int(p.available)", ["C19", "C02"]),
 ("copytoend-from-row1", "ecs/column.go", "\tif c.isTrivial {\n\t\tsrc := from.Get(0)\n\t\tdst := c.Get(uintptr(start))\n\t\tcopyPtr(src, dst, c.itemSize*uintptr(count))\n\t\treturn\n\t}\n\tcopyRange(from.data, c.data, int(start), int(count))", "\tif c.isTrivial {\n\t\tsrc := from.Get(0)\n\t\tdst := c.Get(uintptr(start))\n\t\tif count > 9 && c.itemSize == 3 {\n\t\t\tcount--\n\t\t}\n\t\tcopyPtr(src, dst, c.itemSize*uintptr(count))\n\t\treturn\n\t}\n\tcopyRange(from.data, c.data, int(start), int(count))", ["C01", "C06"]),
 ("emit-skips-with-check", "ecs/events.go", "\t\tif o.hasWith && !entityMask.Contains(&o.withMask) {\n\t\t\tcontinue\n\t\t}\n\t\tif o.hasWithout && entityMask.ContainsAny(&o.withoutMask) {\n\t\t\tcontinue\n\t\t}\n\t\to.callback(e)\n\t}\n}\n\n// Reset the observer manager.", "\t\tif o.hasWith && !entityMask.ContainsAny(&o.withMask) {\n\t\t\tcontinue\n\t\t}\n\t\tif o.hasWithout && entityMask.ContainsAny(&o.withoutMask) {\n\t\t\tcontinue\n\t\t}\n\t\to.callback(e)\n\t}\n}\n\n// Reset the observer manager.", ["C08"]),
 ("set-no-event-when-locked", "ecs/map.go", "\tif m.world.storage.observers.HasObservers(OnSetComponents) {\n\t\tnewMask := &m.world.storage.archetypes[m.world.storage.tables[index.table].archetype].mask\n\t\tm.world.storage.observers.FireSet(entity, &m.mask, newMask)", "\tif !m.world.IsLocked() && m.world.storage.observers.HasObservers(OnSetComponents) {\n\t\tnewMask := &m.world.storage.archetypes[m.world.storage.tables[index.table].archetype].mask\n\t\tm.world.storage.observers.FireSet(entity, &m.mask, newMask)", ["C08", "C07"]),
 ("swapremove-raw-overwrite", "ecs/table.go", "\t\t\tcopyValue(column.data, column.data, int(lastIndex), int(index))\n\t\t\tcolumn.Zero(lastIndex, t.zeroPointer)", "\t\t\tcopyPtr(unsafe.Add(column.pointer, lastIndex*column.itemSize), unsafe.Add(column.pointer, uintptr(index)*column.itemSize), column.itemSize)\n\t\t\tcolumn.Zero(lastIndex, t.zeroPointer)", ["C11"]),
 ("exchange-no-table-refetch", "ecs/world_internal.go", "\tnewTable, newArch, relRemoved := w.storage.findOrCreateTable(oldTable, add, rem, relations, &mask)\n\n\t// Get the old table and archetype again, as the pointer may have changed.\n\toldTable = &w.storage.tables[oldTable.id]\n", "\tnewTable, newArch, relRemoved := w.storage.findOrCreateTable(oldTable, add, rem, relations, &mask)\n\n", ["C01", "C04"]),
 ("setrelations-no-table-refetch", "ecs/world_internal.go", "\t\tnewTable = w.storage.createTable(oldArch, newRelations)\n\t\t// Get the old table again, as pointers may have changed.\n\t\toldTable = &w.storage.tables[oldTable.id]\n", "\t\tnewTable = w.storage.createTable(oldArch, newRelations)\n", ["C04", "C01"]),
 ("reset-small-path-raw-zero", "ecs/column.go", "\tif ownLen <= 64 && c.isTrivial {", "\tif ownLen <= 64 {", ["C11"]),
 ("mask64-bit63", "ecs/mask64.go", "func (b *bitMask64) ContainsAny(other *bitMask64) bool {\n\treturn b.bits&other.bits != 0", "func (b *bitMask64) ContainsAny(other *bitMask64) bool {\n\treturn (b.bits&other.bits)<<1 != 0", ["C20"]),
]

def sh(cmd, cwd=None, env=None):
    e = dict(os.environ, GOFLAGS='-mod=mod', GOPROXY='off')
    if env: e.update(env)
    p = subprocess.run(cmd, shell=True, cwd=cwd, env=e, capture_output=True, text=True)
    return p.returncode, p.stdout + p.stderr

def main():
    sel = sys.argv[1] if len(sys.argv) > 1 else ''
    res_file = '/verif/selfmut/results.json'
    results = json.load(open(res_file)) if os.path.exists(res_file) else {}
    for name, f, old, new, checks in M:
        if sel not in name: continue
        wt = '/tmp/selfmut-' + name
        sh(f'git -C /repo worktree remove --force {wt}'); shutil.rmtree(wt, ignore_errors=True)
        rc, out = sh(f'git -C /repo worktree add -q --detach {wt} HEAD')
        src = open(f'{wt}/{f}').read()
        if src.count(old) != 1:
            results[name] = {'status': 'anchor not found (%d)' % src.count(old)}; print(name, results[name]); sh(f'git -C /repo worktree remove --force {wt}'); continue
        open(f'{wt}/{f}', 'w').write(src.replace(old, new))
        rc, out = sh('go build ./... && go test -vet=off -count=1 ./...', cwd=wt)
        if rc != 0:
            results[name] = {'status': 'killed by the pinned suite or does not compile'}; print(name, results[name]); sh(f'git -C /repo worktree remove --force {wt}'); continue
        r = {'status': 'survives the pinned suite', 'file': f, 'checks': {}}
        for c in checks:
            rc, out = sh(f'./check {c} quick', cwd='/verif', env={'ARK_REPO': wt, 'VERIF_BIN': 'bin-mut-' + name, 'VERIF_EVIDENCE': '/verif/tmp/evidence-mut'})
            sig = [l.strip()[:160] for l in out.splitlines() if 'signature=' in l][:1]
            r['checks'][c] = {'rc': rc, 'first': sig}
        results[name] = r; print(name, json.dumps(r)[:400])
        sh(f'git -C /repo worktree remove --force {wt}'); shutil.rmtree('/verif/bin-mut-' + name, ignore_errors=True)
        json.dump(results, open(res_file, 'w'), indent=1)
    json.dump(results, open(res_file, 'w'), indent=1)

main()
