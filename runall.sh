#!/bin/bash
# runs every check of MANIFEST.json at the given tier and prints a one-line summary each
tier=${1:-quick}
cd "$(dirname "$(readlink -f "$0")")"
for p in $(python3 -c "import json;print(' '.join(c['property_id'] for c in json.load(open('MANIFEST.json'))['checks']))"); do
  out=$(./check $p $tier 2>&1); rc=$?
  echo "$p rc=$rc $(echo "$out" | tail -1)"
  echo "$out" | grep -E "^VIOLATION|^  signature|HARNESS-ERROR|KNOWN-FINDING" | cut -c1-300
done
