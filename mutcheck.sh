#!/bin/bash
# mutcheck.sh <id> <srcdir with patch.diff, seeded_demo_test.go, meta.json> <prop> [more props...]
# 1. confirms the seeded change in a fresh scratch worktree of /repo (suite passes, demo fails with / passes without)
# 2. runs the given checks (quick) against that scratch worktree (ARK_REPO), never touching /repo itself
# 3. stores everything under /verif/seeded/<id>/ and removes the worktree
set -u
id=$1; src=$2; shift 2; props="$@"
export GOFLAGS=-mod=mod GOPROXY=off
# Every scratch worktree has its own path, so its build output is never reused: a cache of its own,
# emptied when it grows (the shared cache once filled the disk with 135 GB).
export GOCACHE=${MUT_GOCACHE:-/tmp/gocache-mut}
mkdir -p $GOCACHE
if [ "$(du -sm $GOCACHE 2>/dev/null | cut -f1)" -gt 12000 ]; then go clean -cache; fi
dst=/verif/seeded/$id; mkdir -p $dst
[ "$(readlink -f $src)" != "$(readlink -f $dst)" ] && { cp $src/patch.diff $src/meta.json $dst/ 2>/dev/null; cp $src/seeded_demo_test.go $dst/seeded_demo_test.go.txt 2>/dev/null; }
echo "$props" > $dst/props.txt
wt=/tmp/mutv-$id; git -C /repo worktree remove --force $wt 2>/dev/null; rm -rf $wt
git -C /repo worktree add -q --detach $wt HEAD || exit 2
cd $wt
race=""; grep -qi 'go test -race' $dst/meta.json 2>/dev/null && race="-race"
cp $dst/seeded_demo_test.go.txt ecs/seeded_demo_test.go
tags=""; 
# a demonstration that speaks about build tags is run under all four configurations:
# it must pass in all of them without the change and fail in at least one with it
configs="default"; grep -q 'ark_tiny\|ark_debug' $dst/meta.json 2>/dev/null && configs="default ark_tiny ark_debug ark_tiny,ark_debug"
demo() { rc=0; : > $1; for c in $configs; do t=""; [ $c != default ] && t="-tags $c"; echo "== $c" >> $1; go test $race $t -vet=off -count=1 -run 'TestSeededDemo' ./ecs >> $1 2>&1 || rc=1; done; return $rc; }
demo $dst/demo_without.log; without=$?
git apply $dst/patch.diff || { echo "patch does not apply"; exit 2; }
demo $dst/demo_with.log; with=$?
rm ecs/seeded_demo_test.go
go test -vet=off -count=1 ./... > $dst/suite_with.log 2>&1; suite=$?
echo "confirm: demo_without_rc=$without (want 0) demo_with_rc=$with (want !=0) suite_with_rc=$suite (want 0)"
res="{\"demo_passes_without\": $([ $without = 0 ] && echo true || echo false), \"demo_fails_with\": $([ $with != 0 ] && echo true || echo false), \"suite_passes_with\": $([ $suite = 0 ] && echo true || echo false), \"checks\": {"
cd /verif
first=1
for p in $props; do
  out=$(ARK_REPO=$wt VERIF_BIN=bin-mut-$id VERIF_EVIDENCE=/verif/tmp/evidence-mut ./check $p quick 2>&1); rc=$?
  echo "$out" | grep -v "^minimised" | cut -c1-2000 > $dst/check_$p.log
  echo "check $p rc=$rc: $(echo "$out" | grep -E '^VIOLATION|signature=' | head -2 | cut -c1-260 | tr '\n' ' ')"
  [ $first = 1 ] || res="$res, "; first=0
  res="$res\"$p\": $rc"
done
git -C /repo worktree remove --force $wt; rm -rf /verif/bin-mut-$id
res="$res}}"
echo "$res" > $dst/verif_result.json
